----------------------------- MODULE Trace_Server -----------------------------
(***************************************************************************)
(* Judges request histories recorded against the real tftpd process        *)
(* (several write requests for one name, their workers' progress, failures *)
(* and the state of the file on disk in between) against Server.tla with   *)
(* AsCoded = FALSE, i.e. against what C13's second clause requires.        *)
(* Flags are constants: one TLC run per server configuration.              *)
(***************************************************************************)
EXTENDS Server, Json, IOUtils

Rec == ndJsonDeserialize(IOEnv.TRACE)
N == Len(Rec)
VARIABLES l, dev
tvars == <<svars, l, dev>>
E == Rec[l]

TraceInit == l = 1 /\ dev = FALSE /\ SInit([n \in Names |-> Absent])

\* a new history: everything back to the initial state (the driver starts a fresh server)
TReset ==
  /\ l <= N /\ E.e = "reset"
  /\ disk' = [n \in Names |-> Absent] /\ workers' = <<>> /\ clients' = [e \in Endpoints |-> 0]
  /\ replies' = <<>> /\ accepted' = [n \in Names |-> <<>>]
  /\ dev' = FALSE /\ l' = l + 1

\* a file the driver put there before the first request of this history
TPre ==
  /\ l <= N /\ ~dev /\ E.e = "pre" /\ workers = <<>>
  /\ disk' = [disk EXCEPT ![E.name] = Pre(E.k)]
  /\ UNCHANGED <<workers, clients, replies, accepted, dev>> /\ l' = l + 1

TWrq ==
  /\ l <= N /\ ~dev /\ E.e = "wrq"
  /\ LWrq(E.ep, E.name)
  /\ LET r == replies'[Len(replies')] IN
     /\ r.k = E.reply /\ r.code = E.code
     /\ (E.reply = "ack0" => E.wid = Len(workers'))
  /\ UNCHANGED dev /\ l' = l + 1

TOpened == l <= N /\ ~dev /\ E.e = "opened" /\ WOpen(E.wid) /\ workers'[E.wid].phase = "open" /\ UNCHANGED dev /\ l' = l + 1
TBlock  == l <= N /\ ~dev /\ E.e = "block" /\ WBlock(E.wid) /\ UNCHANGED dev /\ l' = l + 1
TFinish == l <= N /\ ~dev /\ E.e = "finish" /\ WFinish(E.wid) /\ UNCHANGED dev /\ l' = l + 1
TFail   == l <= N /\ ~dev /\ E.e = "fail" /\ WFail(E.wid) /\ UNCHANGED dev /\ l' = l + 1

\* observation of the file on disk: must be what the specification says
DiskMatches ==
  LET d == disk[E.name] IN
  IF E.st = "absent" THEN d.st = "absent"
  ELSE IF E.k = 0 /\ E.by = 0 THEN d.st = "file" /\ d.k = 0 /\ ~d.mixed    \* an empty file does not tell who created it
  ELSE d.st = "file" /\ d.by = E.by /\ d.k = E.k /\ d.mixed = E.mixed
TDisk == l <= N /\ ~dev /\ E.e = "disk" /\ DiskMatches /\ UNCHANGED <<svars, dev>> /\ l' = l + 1

Matched == TPre \/ TWrq \/ TOpened \/ TBlock \/ TFinish \/ TFail \/ TDisk

Label ==
  CASE E.e = "disk" ->
         IF \E id \in Ids : workers[id].phase = "failed" /\ workers[id].name = E.name /\ workers[id].kind = "up"
                             /\ LaterOpened(id)
         THEN "C13:FailureOfEarlierTransferDamagedLaterUpload"
         ELSE IF \E id \in Ids : workers[id].phase = "failed" /\ workers[id].name = E.name THEN "C13:CleanupAfterFailure"
         ELSE IF accepted[E.name] # <<>> /\ workers[Last(accepted[E.name])].phase = "done" THEN "C13,C02,C06:CompletedUploadContent"
         ELSE "C02:DiskContent"
    [] E.e = "wrq" -> "C06:WriteRequestReply"
    [] OTHER -> "C13:WorkerLifeCycle"

Deviate ==
  /\ l <= N /\ ~dev /\ E.e # "reset"
  /\ ~ ENABLED Matched
  /\ PrintT(<<"DEV", l, Label>>)
  /\ dev' = TRUE /\ UNCHANGED svars /\ l' = l + 1
Skip == l <= N /\ dev /\ E.e # "reset" /\ UNCHANGED <<svars, dev>> /\ l' = l + 1

TraceNext == TReset \/ Matched \/ Deviate \/ Skip
TraceSpec == TraceInit /\ [][TraceNext]_tvars
TraceAccepted ==
  LET d == TLCGet("stats").diameter IN
  IF d - 1 = N THEN TRUE ELSE Print(<<"STUCK", d>>, FALSE)
=============================================================================
