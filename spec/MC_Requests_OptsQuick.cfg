SPECIFICATION Spec
CONSTANTS
  Mode = "optsq"
  L = 2
ACTION_CONSTRAINT PrintVector
CHECK_DEADLOCK FALSE
INVARIANTS C03_AcceptImpliesInside C09_OackLaws
