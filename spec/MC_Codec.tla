------------------------------ MODULE MC_Codec ------------------------------
(***************************************************************************)
(* Enumerations over which TLC checks the codec laws and from which it     *)
(* prints one implementation test vector per enumerated point.             *)
(*  Mode "bytes":   byte strings = opcode prefix \o up to L tokens from a  *)
(*                  reduced alphabet containing every structurally         *)
(*                  relevant byte and the option names in several          *)
(*                  spellings (the states ARE the strings); law: Stable.   *)
(*  Mode "prefix":  all 65536 two-byte prefixes x short tails.             *)
(*  Mode "packets": packet values from a grammar; law: RoundTrip.          *)
(***************************************************************************)
EXTENDS Codec, Json

CONSTANTS Mode, L
VARIABLES bs, nt
cvars == <<bs, nt>>

Up(s) == [i \in 1..Len(s) |-> IF s[i] >= 97 /\ s[i] <= 122 THEN s[i] - 32 ELSE s[i]]
Mixed(s) == [i \in 1..Len(s) |-> IF i % 2 = 1 /\ s[i] >= 97 /\ s[i] <= 122 THEN s[i] - 32 ELSE s[i]]
OCTET == <<111, 99, 116, 101, 116>>

Prefixes == { <<0, 1>>, <<0, 2>>, <<0, 3>>, <<0, 4>>, <<0, 5>>, <<0, 6>>, <<0, 0>>, <<0, 7>>, <<1, 1>>, <<0>>, <<5>> }
Tokens ==
  { <<0>>, <<49>>, <<48>>, <<43>>, <<45>>, <<97>>, <<195>>, <<169>>, <<255>>, <<7>>,
    BLKSIZE, Up(BLKSIZE), TSIZE, TIMEOUT, WINDOWSIZE, Mixed(WINDOWSIZE), OCTET,
    ValueBytes(MAXU64), <<49,56,52,52,54,55,52,52,48,55,51,55,48,57,53,53,49,54,49,54>> }
Tails == { <<>>, <<0>>, <<0, 0>>, <<0, 1>>, <<49, 0>>, <<0, 8>>, <<97, 0, 0>> }

\* "deep" mode: the token budget is spent after a well-formed head, so that the option area,
\* trailing bytes and unterminated tails are reached within L tokens
Heads == { <<0, 1, 97, 0>> \o OCTET \o <<0>>, <<0, 2, 0, 0>>, <<0, 6>>, <<0, 5, 0, 1>>, <<0, 1>> }
DeepTokens == { <<0>>, <<49>>, <<43>>, <<97>>, <<255>>, BLKSIZE, Up(BLKSIZE), TSIZE,
                <<49,56,52,52,54,55,52,52,48,55,51,55,48,57,53,53,49,54,49,54>> }
NextDeep ==
  \/ bs = <<>> /\ nt = 0 /\ \E pre \in Heads : bs' = pre /\ nt' = 1
  \/ nt >= 1 /\ nt <= L /\ \E tok \in DeepTokens : bs' = bs \o tok /\ nt' = nt + 1

InitBytes == bs = <<>> /\ nt = 0
NextBytes ==
  \/ bs = <<>> /\ nt = 0 /\ \E pre \in Prefixes : bs' = pre /\ nt' = 1
  \/ nt >= 1 /\ nt <= L /\ \E tok \in Tokens : bs' = bs \o tok /\ nt' = nt + 1

InitPrefix == bs = <<>> /\ nt = 0
NextPrefix == nt = 0 /\ \E hi \in 0..255, lo \in 0..255, tl \in Tails : bs' = <<hi, lo>> \o tl /\ nt' = 1

\* ---- packet grammar ----
Long == [i \in 1..520 |-> 97 + (i % 26)]
Strs == { <<>>, <<97>>, <<195, 169>>, OCTET, <<47, 97, 92, 46, 46>>, Long }
Modes == { OCTET, <<>>, <<110, 101, 116, 97, 115, 99, 105, 105>>, Up(OCTET), <<77, 97, 105, 108>> }
Opt1 == { [o |-> o, v |-> v] : o \in {"blksize", "tsize", "timeout", "windowsize"},
                               v \in { <<0>>, <<1>>, <<6, 5, 4, 6, 4>>, MAXU64 } }
OptLists == { <<>> } \cup { <<a>> : a \in Opt1 }
            \cup (IF L >= 2 THEN { <<a, b>> : a \in Opt1, b \in Opt1 } ELSE { <<a, b>> : a \in Opt1, b \in {[o |-> "tsize", v |-> <<0>>]} })
            \cup (IF L >= 3 THEN { <<a, b, c>> : a \in Opt1, b \in Opt1, c \in Opt1 } ELSE {})
Nums == { 0, 1, 255, 256, 65535 }
Payloads == { <<>>, <<0>>, <<1, 2, 3>>, [i \in 1..512 |-> i % 256] }
BigPayloads == { [i \in 1..1468 |-> (i * 3) % 256], [i \in 1..65464 |-> (i * 7) % 256] }
Packets ==
       { [t |-> t, fn |-> f, mode |-> m, opts |-> os] : t \in {"rrq", "wrq"}, f \in Strs, m \in Modes, os \in OptLists }
  \cup { [t |-> "data", n |-> n, d |-> d] : n \in Nums, d \in Payloads }
  \cup { [t |-> "data", n |-> n, d |-> d] : n \in (IF L >= 3 THEN Nums ELSE {65535}), d \in BigPayloads }
  \cup { [t |-> "ack", n |-> n] : n \in Nums }
  \cup { [t |-> "error", code |-> c, msg |-> m] : c \in 0..7, m \in Strs \cup {NOMESSAGE} }
  \cup { [t |-> "oack", opts |-> os] : os \in OptLists }

\* a packet is the state; bs holds it (re-using the variable), nt = -1 marks the mode
InitPackets == bs = <<>> /\ nt = 0
NextPackets == nt = 0 /\ \E pk \in Packets : bs' = pk /\ nt' = 1

Init == CASE Mode = "bytes" -> InitBytes [] Mode = "deep" -> InitBytes [] Mode = "prefix" -> InitPrefix [] Mode = "packets" -> InitPackets
Next == CASE Mode = "bytes" -> NextBytes [] Mode = "deep" -> NextDeep [] Mode = "prefix" -> NextPrefix [] Mode = "packets" -> NextPackets
Spec == Init /\ [][Next]_cvars

PrintVector ==
  IF Mode = "packets" THEN PrintT(<<"SCRIPT", ToJson([p |-> bs'])>>)
  ELSE PrintT(<<"SCRIPT", ToJson([b |-> bs'])>>)

\* the laws, as invariants over every enumerated point
C10_Stable    == (Mode # "packets") => Stable(bs)
C11_RoundTrip == (Mode = "packets" /\ nt = 1) => RoundTrip(bs)
C11_U16 == /\ \A n \in {0, 1, 6, 7, 8, 255, 256, 65535} : OpcodeOK(n) <=> (n >= 1 /\ n <= 6)
           /\ \A n \in {0, 7, 8, 256, 65535} : ErrCodeOK(n) <=> n <= 7
=============================================================================
