----------------------------- MODULE WrapLemma -----------------------------
(***************************************************************************)
(* The arithmetic fact behind C15 ("no acknowledgement is attributed to a  *)
(* block 65536 positions away") and behind the in-window test of           *)
(* Transfer.tla, proved with TLAPS (Z3 back end) for the code's modulus    *)
(* M = 65536 and EVERY window position and length (with a symbolic modulus *)
(* the goals are non-linear and Z3 gives up): if fewer than M blocks are   *)
(* outstanding (len <= W < M), an ACK number n passes the test             *)
(*      (n - (base+1)) % M < len                                           *)
(* exactly when n is the wire number of an outstanding block, that block   *)
(* is unique, and it is the one the sender advances to.                    *)
(***************************************************************************)
EXTENDS Integers, TLAPS

M == 65536

THEOREM ModUnique ==
  ASSUME NEW i \in Int, NEW j \in Int,
         i % M = j % M, i - j < M, j - i < M
  PROVE  i = j
  BY Z3 DEF M

THEOREM InWindowIsOutstanding ==
  ASSUME NEW base \in Int, base >= 0,
         NEW len \in Int, len >= 0, len < M,
         NEW n \in Int, n >= 0, n < M
  PROVE  ((n - (base + 1)) % M < len)
           <=> (\E i \in Int : i >= base + 1 /\ i <= base + len /\ i % M = n)
<1>1. ASSUME (n - (base + 1)) % M < len
      PROVE  \E i \in Int : i >= base + 1 /\ i <= base + len /\ i % M = n
  <2> DEFINE w == base + 1 + ((n - (base + 1)) % M)
  <2>1. w \in Int /\ w >= base + 1 /\ w <= base + len /\ w % M = n
    BY <1>1, Z3 DEF M
  <2> QED BY <2>1
<1>2. ASSUME NEW i \in Int, i >= base + 1, i <= base + len, i % M = n
      PROVE  (n - (base + 1)) % M < len
  BY <1>2, Z3 DEF M
<1> QED BY <1>1, <1>2

THEOREM OutstandingBlockIsUnique ==
  ASSUME NEW base \in Int, base >= 0,
         NEW len \in Int, len >= 0, len < M,
         NEW i \in Int, i >= base + 1, i <= base + len,
         NEW j \in Int, j >= base + 1, j <= base + len,
         i % M = j % M
  PROVE  i = j
  BY Z3 DEF M

\* the index the sender advances to is that block: base' = base + diff + 1
THEOREM AdvanceHitsTheAckedBlock ==
  ASSUME NEW base \in Int, base >= 0,
         NEW len \in Int, len >= 0, len < M,
         NEW n \in Int, n >= 0, n < M,
         (n - (base + 1)) % M < len
  PROVE  LET k == ((n - (base + 1)) % M) + 1 IN
         /\ k >= 1 /\ k <= len
         /\ (base + k) % M = n
  BY Z3 DEF M
=============================================================================
