----------------------------- MODULE SenderInd -----------------------------
(***************************************************************************)
(* The window arithmetic of the sender of Transfer.tla, restated with type *)
(* annotations for Apalache so that its invariants can be discharged as an *)
(* INDUCTIVE invariant for EVERY window size 1..65535, file length and     *)
(* timeout - not only the bounded instances TLC explores:                  *)
(*   apalache-mc check --cinit=ConstInit --init=Init    --inv=IndInv --length=0 SenderInd.tla *)
(*   apalache-mc check --cinit=ConstInit --init=IndInit --inv=IndInv --length=1 SenderInd.tla *)
(* Same guards and updates as StartWindow / SendRecvAckInWindow /          *)
(* SendRecvAckOutside / SendRecvFail / RecvError of Transfer.tla (the      *)
(* output descriptor and the ghost variables are left out).                *)
(***************************************************************************)
EXTENDS Integers

CONSTANTS
  \* @type: Int;
  W,
  \* @type: Int;
  NB,
  \* @type: Int;
  T

VARIABLES
  \* @type: Str;
  pc,
  \* @type: Int;
  base,
  \* @type: Int;
  len,
  \* @type: Bool;
  eof,
  \* @type: Int;
  retry,
  \* @type: Int;
  el

M == 65536
ConstInit == W \in Int /\ W >= 1 /\ W <= 65535 /\ NB \in Int /\ NB >= 1 /\ T \in Int /\ T >= 1

Min(a, b) == IF a < b THEN a ELSE b
Window(b) == Min(W, NB - b)

Init ==
  /\ pc = "run" /\ base = 0 /\ len = Window(0) /\ eof = (Window(0) = NB) /\ retry = 0 /\ el = 0

InWindow(n) == ((n - (base + 1)) % M) < len

Tick(dt) == el' = IF el + dt >= T THEN 0 ELSE el + dt

AckInWindow(n) ==
  /\ pc = "run" /\ n >= 0 /\ n < M /\ InWindow(n)
  /\ LET k == ((n - (base + 1)) % M) + 1 IN
     IF eof
     THEN IF k = len
          THEN pc' = "done" /\ base' = base + k /\ len' = 0 /\ UNCHANGED <<eof, retry, el>>
          ELSE pc' = pc /\ base' = base + k /\ len' = len - k /\ retry' = 0 /\ el' = 0 /\ UNCHANGED eof
     ELSE /\ pc' = pc /\ base' = base + k /\ len' = Window(base + k)
          /\ eof' = (base + k + Window(base + k) = NB) /\ retry' = 0 /\ el' = 0

AckOutside(n, dt) ==
  /\ pc = "run" /\ n >= 0 /\ n < M /\ ~InWindow(n) /\ dt >= 0
  /\ Tick(dt) /\ UNCHANGED <<pc, base, len, eof, retry>>

Fail(dt) ==
  /\ pc = "run" /\ dt >= 0
  /\ retry' = retry + 1
  /\ IF retry + 1 = 6 THEN pc' = "failed" /\ UNCHANGED el ELSE pc' = pc /\ Tick(dt)
  /\ UNCHANGED <<base, len, eof>>

Error == pc = "run" /\ pc' = "failed" /\ UNCHANGED <<base, len, eof, retry, el>>

Next ==
  \/ \E n \in Int : AckInWindow(n)
  \/ \E n \in Int, dt \in Int : AckOutside(n, dt)
  \/ \E dt \in Int : Fail(dt)
  \/ Error
  \/ (pc \in {"done", "failed"} /\ UNCHANGED <<pc, base, len, eof, retry, el>>)

\* C08_Outstanding, C07_NoBeyondFinal, C07_EofIffLast, C08_WindowNonEmptyWhileRunning,
\* C07_BoundedRetries, C07_DoneOnlyAtEnd, C01_AckedWasSent (done only at NB) - as ONE inductive invariant
IndInv ==
  /\ pc \in {"run", "done", "failed"}
  /\ base >= 0 /\ len >= 0 /\ len <= W /\ base + len <= NB
  /\ retry >= 0 /\ el >= 0 /\ el < T
  /\ (pc = "run" => /\ len >= 1 /\ retry < 6 /\ (eof <=> base + len = NB))
  /\ (pc = "done" => base = NB /\ len = 0 /\ eof)

IndInit ==
  /\ pc \in {"run", "done", "failed"} /\ base \in Int /\ len \in Int /\ eof \in BOOLEAN
  /\ retry \in Int /\ el \in Int
  /\ IndInv
=============================================================================
