---------------------------- MODULE ReceiverInd ----------------------------
(***************************************************************************)
(* The receiver of Transfer.tla with block COUNTS instead of id sequences  *)
(* (stored = blocks in the file, len = blocks buffered, acked = number in   *)
(* the last committed ACK), annotated for Apalache: C02's "ACK(k) implies   *)
(* blocks 1..k are stored" and C08's "acknowledges at the latest after W    *)
(* in-order blocks" as an inductive invariant for EVERY windowsize.         *)
(*   apalache-mc check --cinit=ConstInit --init=Init    --inv=IndInv --length=0 ReceiverInd.tla *)
(*   apalache-mc check --cinit=ConstInit --init=IndInit --inv=IndInv --length=1 ReceiverInd.tla *)
(***************************************************************************)
EXTENDS Integers

CONSTANTS
  \* @type: Int;
  W

VARIABLES
  \* @type: Str;
  pc,
  \* @type: Int;
  base,
  \* @type: Int;
  len,
  \* @type: Int;
  stored,
  \* @type: Int;
  acked,
  \* @type: Int;
  retry

M == 65536
ConstInit == W \in Int /\ W >= 1 /\ W <= 65535

Init == pc = "run" /\ base = 0 /\ len = 0 /\ stored = 0 /\ acked = 0 /\ retry = 0

\* DATA numbered n, final iff its payload is short
DataInSeq(n, final) ==
  /\ pc = "run" /\ n = (base + 1) % M
  /\ base' = base + 1
  /\ IF final \/ len + 1 = W
     THEN /\ stored' = stored + len + 1 /\ len' = 0 /\ acked' = base + 1 /\ retry' = 0
          /\ pc' = IF final THEN "done" ELSE pc
     ELSE /\ len' = len + 1 /\ retry' = 0 /\ UNCHANGED <<stored, acked, pc>>

DataOutOfSeq(n) ==
  /\ pc = "run" /\ n >= 0 /\ n < M /\ n # (base + 1) % M
  /\ stored' = stored + len /\ len' = 0 /\ acked' = base /\ retry' = 0
  /\ UNCHANGED <<pc, base>>

Fail ==
  /\ pc = "run" /\ retry' = retry + 1
  /\ pc' = IF retry + 1 = 6 THEN "failed" ELSE pc
  /\ UNCHANGED <<base, len, stored, acked>>

Error == pc = "run" /\ pc' = "failed" /\ UNCHANGED <<base, len, stored, acked, retry>>

Next ==
  \/ \E n \in Int, f \in BOOLEAN : DataInSeq(n, f)
  \/ \E n \in Int : DataOutOfSeq(n)
  \/ Fail \/ Error
  \/ (pc \in {"done", "failed"} /\ UNCHANGED <<pc, base, len, stored, acked, retry>>)

IndInv ==
  /\ pc \in {"run", "done", "failed"}
  /\ base >= 0 /\ len >= 0 /\ stored >= 0 /\ acked >= 0 /\ retry >= 0
  /\ stored + len = base                 \* every accepted block is in the file or in the buffer, once
  /\ acked <= stored                      \* C02: whatever has been acknowledged is stored
  /\ (pc = "run" => len < W /\ retry < 6) \* C08: never W blocks buffered unacknowledged
  /\ (pc = "done" => len = 0 /\ acked = base)

IndInit ==
  /\ pc \in {"run", "done", "failed"} /\ base \in Int /\ len \in Int /\ stored \in Int /\ acked \in Int /\ retry \in Int
  /\ IndInv
=============================================================================
