Logging is disabled (Z3SolverContext.debug = false). Activate with --debug.
