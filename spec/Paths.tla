-------------------------------- MODULE Paths --------------------------------
(***************************************************************************)
(* How the listener turns a request's file name into a path and decides    *)
(* whether to touch it (src/server.rs: convert_file_path,                  *)
(* validate_file_path, check_file_exists), next to an INDEPENDENT model of *)
(* how the operating system resolves that path.  Names and path components *)
(* are sequences of byte codes.  Assumption: no symbolic links inside the  *)
(* served trees (the code does not canonicalise).                          *)
(***************************************************************************)
EXTENDS Naturals, Sequences, TLC

SLASH == 47
BSLASH == 92
DOT == 46

\* ---- convert_file_path: trim leading separators, backslash -> slash ----
RECURSIVE TrimLead(_)
TrimLead(n) == IF n # <<>> /\ n[1] \in {SLASH, BSLASH} THEN TrimLead(Tail(n)) ELSE n
Norm(n) == [i \in 1..Len(n) |-> IF n[i] = BSLASH THEN SLASH ELSE n[i]]
Conv(n) == Norm(TrimLead(n))

\* ---- validate_file_path: no ".." anywhere in the joined path; the directory among its
\* ancestors (always true for a relative name joined to the directory) ----
HasDotDot(s) == \E i \in 1..(Len(s) - 1) : s[i] = DOT /\ s[i + 1] = DOT
Accept(n) == ~HasDotDot(Conv(n))

\* ---- the operating system's view of <directory>/<Conv(n)> ----
RECURSIVE SplitAt(_, _, _)
SplitAt(s, cur, acc) ==     \* components separated by '/'
  IF s = <<>> THEN Append(acc, cur)
  ELSE IF s[1] = SLASH THEN SplitAt(Tail(s), <<>>, Append(acc, cur))
  ELSE SplitAt(Tail(s), Append(cur, s[1]), acc)
Components(s) == SplitAt(s, <<>>, <<>>)

\* walk: "" and "." stay, ".." goes up; depth < 0 means the walk left the directory
RECURSIVE Walk(_, _, _)
Walk(cs, stack, escaped) ==
  IF cs = <<>> THEN [path |-> stack, escaped |-> escaped]
  ELSE LET c == cs[1] IN
       IF c = <<>> \/ c = <<DOT>> THEN Walk(Tail(cs), stack, escaped)
       ELSE IF c = <<DOT, DOT>>
            THEN IF stack = <<>> THEN Walk(Tail(cs), stack, TRUE)
                 ELSE Walk(Tail(cs), SubSeq(stack, 1, Len(stack) - 1), escaped)
       ELSE Walk(Tail(cs), Append(stack, c), escaped)
Resolve(n) == Walk(Components(Conv(n)), <<>>, FALSE)
\* a name that ends in a separator (or is empty) can only denote a directory
WantsDir(n) == LET c == Conv(n) IN c = <<>> \/ c[Len(c)] = SLASH \/
                 (LET cs == Components(c) IN cs[Len(cs)] = <<DOT>>)

\* C03, design level: whatever the listener accepts resolves inside the directory
C03_Confined(n) == Accept(n) => ~Resolve(n).escaped

\* ---- a directory tree: set of [path, kind, size, cid] with kind "file" | "dir" ----
\* state of a resolved path in tree T: "file" | "dir" | "none" (parent is a dir) | "notdir"
\* (some proper prefix is missing or a file)
RECURSIVE PrefixesAreDirs(_, _, _)
PrefixesAreDirs(T, path, k) ==
  IF k = 0 THEN TRUE
  ELSE (\E e \in T : e.path = SubSeq(path, 1, k) /\ e.kind = "dir") /\ PrefixesAreDirs(T, path, k - 1)
NAME_MAX == 255
TooLong(path) == \E i \in 1..Len(path) : Len(path[i]) > NAME_MAX     \* the OS refuses such a component
StateOf(T, path) ==
  IF path = <<>> THEN "dir"
  ELSE IF TooLong(path) THEN "notdir"
  ELSE IF ~PrefixesAreDirs(T, path, Len(path) - 1) THEN "notdir"
  ELSE IF \E e \in T : e.path = path /\ e.kind = "file" THEN "file"
  ELSE IF \E e \in T : e.path = path /\ e.kind = "dir" THEN "dir"
  ELSE "none"
EntryOf(T, path) == CHOOSE e \in T : e.path = path
=============================================================================
