---------------------------- MODULE Trace_Client ----------------------------
(* Judges runs of the real tftpc against a scripted model server: the request  *)
(* it sent must decode (Codec) to Client.Request, and what it did after the    *)
(* scripted first reply must be Client.React.                                  *)
EXTENDS Client, Json, IOUtils
Rec == ndJsonDeserialize(IOEnv.TRACE)
N == Len(Rec)
VARIABLES l
E == Rec[l]
TraceInit == l = 1
CP == [mode |-> E.mode, blk |-> E.blk, win |-> E.win, tmo |-> E.tmo, fsize |-> E.fsize, name |-> E.name]
Verdict ==
  LET exp == React(CP, Decode(E.reply)) IN
  IF Decode(E.reqbytes) # Request(CP) THEN "C14:ClientRequest"
  ELSE IF E.next.k # exp.next THEN "C14:ClientNextDatagram"
  ELSE IF exp.next = "data1" /\ E.next.len # exp.len THEN "C14:ClientBlockLength"
  ELSE IF E.created # exp.creates THEN "C14:ClientFile"
  ELSE IF exp.error /\ ~E.reported THEN "C14:ClientSilentOnError"
  ELSE "ok"
TraceNext ==
  /\ l <= N
  /\ (E.e = "crun" /\ Verdict # "ok") => PrintT(<<"DEV", l, Verdict>>)
  /\ l' = l + 1
TraceSpec == TraceInit /\ [][TraceNext]_l
TraceAccepted == LET d == TLCGet("stats").diameter IN IF d - 1 = N THEN TRUE ELSE Print(<<"STUCK", d>>, FALSE)
=============================================================================
