SPECIFICATION Spec
CONSTANTS
  WParams <- MixedFull
  MaxFile = 10
  MaxOps = 6
VIEW View
ACTION_CONSTRAINT PrintScript
CHECK_DEADLOCK FALSE
INVARIANTS C18_Bounded C18_ReaderSlices
PROPERTIES C18_AppendOnly
