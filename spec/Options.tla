------------------------------- MODULE Options -------------------------------
(***************************************************************************)
(* Option negotiation of the listener (src/server.rs: parse_options,       *)
(* accept_request) as RFC 2347/2348/2349/7440 and property C09 require it. *)
(* An option list is what the decoder hands over: recognised options only, *)
(* in request order, values as normalised digit sequences (see Codec).     *)
(***************************************************************************)
EXTENDS Naturals, Sequences, TLC

\* ---- arithmetic on normalised digit sequences ----
RECURSIVE DLexLeq(_, _)
DLexLeq(a, b) == IF a = <<>> THEN TRUE
                 ELSE IF a[1] < b[1] THEN TRUE ELSE IF a[1] > b[1] THEN FALSE ELSE DLexLeq(Tail(a), Tail(b))
DLeq(a, b) == Len(a) < Len(b) \/ (Len(a) = Len(b) /\ DLexLeq(a, b))
RECURSIVE DVal(_)
DVal(d) == IF d = <<>> THEN 0 ELSE DVal(SubSeq(d, 1, Len(d) - 1)) * 10 + d[Len(d)]   \* only for small d
RECURSIVE Digits(_)
Digits(n) == IF n < 10 THEN <<n>> ELSE Append(Digits(n \div 10), n % 10)

D8 == <<8>>
D65464 == <<6, 5, 4, 6, 4>>
D65535 == <<6, 5, 5, 3, 5>>

\* can the server honour this value?
Honourable(o, v) ==
  CASE o = "blksize"    -> DLeq(D8, v) /\ DLeq(v, D65464)
    [] o = "timeout"    -> v # <<0>>
    [] o = "windowsize" -> v # <<0>> /\ DLeq(v, D65535)
    [] o = "tsize"      -> TRUE

LastValue(opts, o, dflt) ==
  LET S == {i \in 1..Len(opts) : opts[i].o = o} IN
  IF S = {} THEN dflt ELSE opts[CHOOSE i \in S : \A j \in S : j <= i].v

\* Negotiate: kind "rrq" | "wrq"; fsize = size of the file served (rrq), as a number.
\* Result: [ok |-> FALSE] (request dropped without a reply) or
\*         [ok, oack (option list, <<>> = no OACK), blk, win, tmo (digit seq), first]
Negotiate(kind, opts, fsize) ==
  IF \E i \in 1..Len(opts) : ~Honourable(opts[i].o, opts[i].v) THEN [ok |-> FALSE]
  ELSE [ok |-> TRUE,
        oack |-> [i \in 1..Len(opts) |->
                    IF opts[i].o = "tsize" /\ kind = "rrq" THEN [o |-> "tsize", v |-> Digits(fsize)] ELSE opts[i]],
        blk |-> DVal(LastValue(opts, "blksize", <<5, 1, 2>>)),
        win |-> DVal(LastValue(opts, "windowsize", <<1>>)),
        tmo |-> LastValue(opts, "timeout", <<5>>),
        first |-> IF opts # <<>> THEN "oack" ELSE IF kind = "rrq" THEN "data1" ELSE "ack0"]

\* C09, design level: the laws of a truthful OACK
C09_Laws(kind, opts, fsize) ==
  LET r == Negotiate(kind, opts, fsize) IN
  r.ok =>
    /\ (r.oack # <<>>) <=> (opts # <<>>)                                   \* OACK iff something recognised
    /\ Len(r.oack) = Len(opts)
    /\ \A i \in 1..Len(opts) :
         /\ r.oack[i].o = opts[i].o                                          \* only requested options, in order
         /\ (opts[i].o # "tsize" => r.oack[i].v = opts[i].v /\ DLeq(r.oack[i].v, opts[i].v))
         /\ (opts[i].o = "tsize" => r.oack[i].v = IF kind = "rrq" THEN Digits(fsize) ELSE opts[i].v)
         /\ Honourable(opts[i].o, r.oack[i].v)
    /\ r.blk >= 8 /\ r.blk <= 65464 /\ r.win >= 1 /\ r.win <= 65535
=============================================================================
