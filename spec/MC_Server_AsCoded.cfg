SPECIFICATION Spec
CONSTANTS
  Endpoints = {"c1", "c2", "x"}
  Names = {"f", "g"}
  SinglePort = FALSE
  ReadOnly = FALSE
  Overwrite = TRUE
  Clean = TRUE
  AsCoded = TRUE
  MaxWorkers = 2
  NB = 2
  InitialFiles = {}
VIEW View
CHECK_DEADLOCK FALSE
INVARIANTS C13_CompletedUploadSurvives C06_RefusalsFromListener C06_ReadOnlyStartsNoUpload C12_ReplyPorts C12_RouteOwnsEndpoint C05_ListenerNeverStops
PROPERTIES C06_PreexistingUntouched C06_RefusalHasNoEffect
