------------------------------ MODULE Transfer ------------------------------
(***************************************************************************)
(* One TFTP transfer worker of rs-tftpd (src/worker.rs), both roles.       *)
(*                                                                         *)
(* The worker is a deterministic reactive machine: its only inputs are the *)
(* results of Socket::recv* and the clock, its only outputs are            *)
(* Socket::send, file writes and thread exit.  One action per              *)
(* linearization point:                                                    *)
(*   - each return of recv   -> one of the Recv* / Check* actions          *)
(*   - each Socket::send     -> Emit                                       *)
(*   - thread exit           -> Exit                                       *)
(* A burst of sends between two receives is atomic w.r.t. the worker's own *)
(* state, so the action taken at a receive *commits* the burst in `out`    *)
(* (a compact descriptor: a 65535-block burst is one small record) and     *)
(* Emit discharges it one datagram at a time.                              *)
(*                                                                         *)
(* Block numbers: the spec uses ABSOLUTE block indices 1,2,3,... and maps  *)
(* to wire numbers with  % p.M ; p.M = 65536 when bound to the code, 4..8  *)
(* when TLC explores wrap-around exhaustively.                             *)
(*                                                                         *)
(* The parameters of a transfer are a record-valued VARIABLE p so that one *)
(* TLC run can cover a whole grid of parameters (several initial states)   *)
(* and the trace specification can reset them at every recorded transfer.  *)
(***************************************************************************)
EXTENDS Naturals, Integers, Sequences, TLC

MaxRetries == 6          \* worker.rs: MAX_RETRIES

VARIABLES
  p,      \* [role, M, W, NB, R, T, chk, clean, base0, lastempty, devfull]
  pc,     \* "check" (waiting for the answer to OACK) | "run" | "done" | "failed" | "exited"
  base,   \* sender: absolute index of the last acknowledged block (block_number = (base+1) % M)
          \* receiver: absolute count of blocks accepted in sequence (block_number = base % M)
  len,    \* sender: blocks in the window = the contiguous slice base+1 .. base+len
          \* receiver: blocks accepted but not yet written (= CSLen(buf))
  eof,    \* sender: the final (first short) block has been read into the window (= ~filled)
  retry,  \* consecutive failed receives (retry_cnt): reset by every ACK in the window (sender), every DATA (receiver)
  el,     \* sender: ticks since the window was last transmitted, saturating at p.T
  out,    \* outputs committed but not yet handed to the socket (None or one descriptor)
  buf,    \* receiver: payload ids accepted, not yet written (compact id sequence)
  file,   \* receiver: payload ids in the file, in file order (compact id sequence)
  fexists,\* receiver: the target file exists
  ok,     \* outcome reported by the worker closure once pc = "exited"
  hi,     \* ghost, sender: highest absolute index ever emitted
  ne      \* ghost, receiver: number of accepted blocks with an empty payload (0 or 1)

vars == <<p, pc, base, len, eof, retry, el, out, buf, file, fexists, ok, hi, ne>>

None == [k |-> "none"]

Min(a, b) == IF a < b THEN a ELSE b
Max(a, b) == IF a > b THEN a ELSE b

-----------------------------------------------------------------------------
(* Compact id sequences: [lo, n, x] denotes <<lo+1, ..., lo+n>> \o x, in     *)
(* canonical form (the leading run is maximal; n = 0 => lo = 0, x = <<>>).   *)
(* A 131072-block file written from a conformant sender is [0, 131072, <<>>].*)
CSEmpty == [lo |-> 0, n |-> 0, x |-> <<>>]
CSLen(s) == s.n + Len(s.x)
CSAppend(s, id) ==
  IF s.n = 0 THEN [lo |-> id - 1, n |-> 1, x |-> <<>>]
  ELSE IF s.x = <<>> /\ id = s.lo + s.n + 1 THEN [s EXCEPT !.n = @ + 1]
  ELSE [s EXCEPT !.x = Append(@, id)]
CSExpand(s) == [i \in 1..s.n |-> s.lo + i] \o s.x
RECURSIVE CSAppendAll(_, _)
CSAppendAll(s, q) == IF q = <<>> THEN s ELSE CSAppendAll(CSAppend(s, Head(q)), Tail(q))
CSConcat(a, b) ==
  IF b.n = 0 THEN a
  ELSE IF a.n = 0 THEN b
  ELSE IF a.x = <<>> /\ b.lo = a.lo + a.n THEN [lo |-> a.lo, n |-> a.n + b.n, x |-> b.x]
  ELSE CSAppendAll(a, CSExpand(b))
CSPrefixOfNat(s) == s.x = <<>> /\ (s.n = 0 \/ s.lo = 0)   \* s = <<1..n>>

-----------------------------------------------------------------------------
(* Output descriptors.                                                      *)
(*  data burst : absolute indices next..last still to emit, c copies of     *)
(*               `next` already emitted (each datagram goes out p.R times)  *)
(*  ack        : wire number n, c copies emitted                            *)
(*  err        : the ERROR 4 that answers a bad reply to OACK (sent once)   *)
Burst(a, b) == IF a > b THEN None ELSE [k |-> "data", next |-> a, last |-> b, c |-> 0]
AckOut(n)   == [k |-> "ack", n |-> n, c |-> 0]
ErrOut      == [k |-> "err"]

Wire(i) == i % p.M

\* size class of absolute block i of the file being sent: only block NB is short.
\* p.lastempty tells whether the short one is empty (size an exact multiple).
SizeClass(i) == IF i < p.NB THEN "full" ELSE IF p.lastempty THEN "empty" ELSE "short"

\* the datagram the socket must see next
NextOut ==
  CASE out.k = "data" -> [k |-> "data", n |-> Wire(out.next), i |-> out.next, sz |-> SizeClass(out.next)]
    [] out.k = "ack"  -> [k |-> "ack", n |-> out.n]
    [] out.k = "err"  -> [k |-> "err"]
    [] OTHER          -> None

-----------------------------------------------------------------------------
(* Initial values as a record so that Init and the trace spec's reset agree. *)
SenderWindow(b) == Min(p.W, p.NB - b)

InitVals(pp) ==
  IF pp.role = "send"
  THEN LET l0 == Min(pp.W, pp.NB - pp.base0)
           \* after a conformant prefix (base0 > 0) the OACK handshake lies in that prefix
           hs == pp.chk /\ pp.base0 = 0 IN
       [pc |-> IF hs THEN "check" ELSE "run",
        base |-> pp.base0,
        len  |-> IF hs THEN 0 ELSE l0,
        eof  |-> IF hs THEN FALSE ELSE pp.base0 + l0 = pp.NB,
        retry |-> 0, el |-> 0,
        out  |-> IF hs \/ l0 = 0 THEN None
                 ELSE [k |-> "data", next |-> pp.base0 + 1, last |-> pp.base0 + l0, c |-> 0],
        buf |-> CSEmpty, file |-> CSEmpty, fexists |-> TRUE, ok |-> FALSE, hi |-> pp.base0,
        ne |-> 0]
  ELSE LET r == pp.base0 % pp.W IN   \* after a conformant prefix: r blocks still buffered
       [pc |-> "run", base |-> pp.base0, len |-> r, eof |-> FALSE, retry |-> 0, el |-> 0,
        out |-> None,
        buf |-> IF r = 0 THEN CSEmpty ELSE [lo |-> pp.base0 - r, n |-> r, x |-> <<>>],
        file |-> IF pp.base0 - r = 0 THEN CSEmpty ELSE [lo |-> 0, n |-> pp.base0 - r, x |-> <<>>],
        fexists |-> TRUE, ok |-> FALSE, hi |-> 0, ne |-> 0]

InitWith(pp) ==
  LET v == InitVals(pp) IN
  /\ p = pp /\ pc = v.pc /\ base = v.base /\ len = v.len /\ eof = v.eof
  /\ retry = v.retry /\ el = v.el /\ out = v.out /\ buf = v.buf /\ file = v.file
  /\ fexists = v.fexists /\ ok = v.ok /\ hi = v.hi /\ ne = v.ne

-----------------------------------------------------------------------------
(*                              SENDER                                      *)
Sending == p.role = "send"
AtRecv  == out = None     \* the worker reads the socket only when nothing is left to send

\* (Re)fill the window after `b` has been acknowledged and transmit it: the top of the
\* outer loop of send_file followed by the first pass through the inner loop.
StartWindow(b) ==
  LET l1 == SenderWindow(b) IN
  /\ base' = b /\ len' = l1 /\ eof' = (b + l1 = p.NB)
  /\ out' = Burst(b + 1, b + l1)
  /\ retry' = 0 /\ el' = 0

\* --- answer to the OACK (check_response) ---
CheckAck0 ==
  /\ Sending /\ pc = "check" /\ AtRecv
  /\ pc' = "run" /\ StartWindow(base)
  /\ UNCHANGED <<p, buf, file, fexists, ok, hi, ne>>

CheckOther ==      \* a decodable packet that is neither ACK nor ERROR: the code carries on
  CheckAck0

CheckAckNonZero == \* ACK n, n # 0: ERROR 4 "invalid oack response", then the transfer ends
  /\ Sending /\ pc = "check" /\ AtRecv
  /\ pc' = "failed" /\ out' = ErrOut
  /\ UNCHANGED <<p, base, len, eof, retry, el, buf, file, fexists, ok, hi, ne>>

CheckEnd ==        \* ERROR from the peer, or recv fails (timeout / undecodable): the transfer ends
  /\ Sending /\ pc = "check" /\ AtRecv
  /\ pc' = "failed"
  /\ UNCHANGED <<p, base, len, eof, retry, el, out, buf, file, fexists, ok, hi, ne>>

\* --- data phase ---
InWindow(n) == ((n - (base + 1)) % p.M) < len      \* ACK n names an outstanding block

\* time passes while waiting; retransmit the window iff the timeout has elapsed since the
\* last transmission (`if time.elapsed() >= self.timeout` at the top of the inner loop)
Tick(dt) ==
  IF el + dt >= p.T
  THEN /\ out' = Burst(base + 1, base + len) /\ el' = 0
  ELSE /\ out' = out /\ el' = el + dt

SendRecvAckInWindow(n) ==
  /\ Sending /\ pc = "run" /\ AtRecv /\ InWindow(n)
  /\ LET k == ((n - (base + 1)) % p.M) + 1 IN     \* blocks acknowledged, 1..len
     IF eof
     THEN IF k = len
          THEN /\ pc' = "done" /\ base' = base + k /\ len' = 0
               /\ UNCHANGED <<eof, retry, el, out>>
          ELSE /\ pc' = pc /\ base' = base + k /\ len' = len - k
               /\ out' = Burst(base + k + 1, base + len) /\ retry' = 0 /\ el' = 0
               /\ UNCHANGED eof
     ELSE /\ pc' = pc /\ StartWindow(base + k)
  /\ UNCHANGED <<p, buf, file, fexists, ok, hi, ne>>

SendRecvAckOutside(n, dt) ==   \* stale, duplicate or bogus ACK: nothing but the passage of time
  /\ Sending /\ pc = "run" /\ AtRecv /\ ~InWindow(n)
  /\ Tick(dt)
  /\ UNCHANGED <<p, pc, base, len, eof, retry, buf, file, fexists, ok, hi, ne>>

RecvError ==
  /\ pc = "run" /\ AtRecv
  /\ pc' = "failed"
  /\ UNCHANGED <<p, base, len, eof, retry, el, out, buf, file, fexists, ok, hi, ne>>

SendRecvFail(dt) ==   \* timeout, undecodable datagram, or a packet kind the sender does not expect
  /\ Sending /\ pc = "run" /\ AtRecv
  /\ retry' = retry + 1
  /\ IF retry + 1 = MaxRetries
     THEN pc' = "failed" /\ UNCHANGED <<out, el>>
     ELSE pc' = pc /\ Tick(dt)
  /\ UNCHANGED <<p, base, len, eof, buf, file, fexists, ok, hi, ne>>

-----------------------------------------------------------------------------
(*                              RECEIVER                                    *)
Receiving == p.role = "recv"

\* writing to the target fails (a full disk; the harness uses a symlink to /dev/full)
WriteFails(ids) == p.devfull /\ CSLen(ids) > 0

\* DATA with the next expected number.  sz: "full" | "over" (longer than blksize: the socket
\* buffer truncates it to a full block) | "short" | "empty"; the last two are final.
RecvDataInSeq(n, id, sz) ==
  LET final == sz \notin {"full", "over"}
      nbuf  == IF sz = "empty" THEN buf ELSE CSAppend(buf, id) IN
  /\ Receiving /\ pc = "run" /\ AtRecv
  /\ n = Wire(base + 1)
  /\ base' = base + 1
  /\ ne' = IF sz = "empty" THEN ne + 1 ELSE ne
  /\ IF final \/ len + 1 = p.W
     THEN IF WriteFails(nbuf)
          THEN /\ pc' = "failed" /\ buf' = nbuf /\ len' = len + 1
               /\ retry' = 0
               /\ UNCHANGED <<file, out>>
          ELSE /\ file' = CSConcat(file, nbuf) /\ buf' = CSEmpty /\ len' = 0
               /\ out' = AckOut(Wire(base + 1))
               /\ retry' = 0
               /\ pc' = IF final THEN "done" ELSE pc
     ELSE /\ buf' = nbuf /\ len' = len + 1
          /\ retry' = 0                 \* C04: the budget is for CONSECUTIVE failed receives
          /\ UNCHANGED <<file, out, pc>>
  /\ UNCHANGED <<p, eof, el, fexists, ok, hi>>

\* DATA with any other number (duplicate, retransmission after a lost ACK, or a gap):
\* write what is buffered and acknowledge the last block received in sequence (RFC 7440 s.4)
RecvDataOutOfSeq(n) ==
  /\ Receiving /\ pc = "run" /\ AtRecv
  /\ n # Wire(base + 1)
  /\ IF WriteFails(buf)
     THEN pc' = "failed" /\ UNCHANGED <<file, buf, len, out>>
     ELSE /\ file' = CSConcat(file, buf) /\ buf' = CSEmpty /\ len' = 0
          /\ out' = AckOut(Wire(base))
          /\ pc' = pc
  /\ retry' = 0                        \* a DATA packet arrived: the peer is not silent
  /\ UNCHANGED <<p, base, eof, el, fexists, ok, hi, ne>>

RecvRecvFail ==     \* timeout, undecodable datagram, or a packet kind the receiver does not expect
  /\ Receiving /\ pc = "run" /\ AtRecv
  /\ retry' = retry + 1
  /\ pc' = IF retry + 1 = MaxRetries THEN "failed" ELSE pc
  /\ UNCHANGED <<p, base, len, eof, el, out, buf, file, fexists, ok, hi, ne>>

-----------------------------------------------------------------------------
(*                        OUTPUT AND TERMINATION                            *)
Emit ==
  /\ out # None
  /\ CASE out.k = "data" ->
            /\ out' = IF out.c + 1 < p.R THEN [out EXCEPT !.c = @ + 1]
                      ELSE Burst(out.next + 1, out.last)
            /\ hi' = Max(hi, out.next)
       [] out.k = "ack" ->
            /\ out' = IF out.c + 1 < p.R THEN [out EXCEPT !.c = @ + 1] ELSE None
            /\ hi' = hi
       [] out.k = "err" -> out' = None /\ hi' = hi
  /\ UNCHANGED <<p, pc, base, len, eof, retry, el, buf, file, fexists, ok, ne>>

\* the worker thread leaves its closure: result reported, partial upload removed iff clean
Exit ==
  /\ pc \in {"done", "failed"} /\ out = None
  /\ ok' = (pc = "done")
  /\ fexists' = IF Receiving /\ pc = "failed" /\ p.clean THEN FALSE ELSE fexists
  /\ pc' = "exited"
  /\ UNCHANGED <<p, base, len, eof, retry, el, out, buf, file, hi, ne>>

Ended == pc \in {"done", "failed", "exited"}

-----------------------------------------------------------------------------
(*                      INVARIANTS (design level)                           *)
TypeOK ==
  /\ pc \in {"check", "run", "done", "failed", "exited"}
  /\ base \in Nat /\ len \in Nat /\ retry \in 0..MaxRetries /\ el \in 0..p.T
  /\ eof \in BOOLEAN /\ fexists \in BOOLEAN /\ ok \in BOOLEAN

\* C01: whatever is committed for emission is a slice of the file, numbered modulo M,
\* inside the current window; nothing beyond the final block is ever committed.
C01_SliceOK ==
  Sending /\ out.k = "data" =>
    /\ base + 1 <= out.next /\ out.next <= out.last
    /\ out.last = base + len /\ out.last <= p.NB
C01_NoGapEmitted ==     \* blocks are first emitted in order: no index is skipped
  Sending /\ out.k = "data" => out.next <= hi + 1
C01_AckedWasSent ==     \* an acknowledged block was emitted; the sender finishes only at NB
  Sending => /\ base <= hi \/ base = p.base0
             /\ (pc = "done" => base = p.NB /\ hi = p.NB)

\* C07
C07_NoBeyondFinal  == Sending => base + len <= p.NB /\ hi <= p.NB
C07_EofIffLast     == Sending /\ pc = "run" => (eof <=> base + len = p.NB)
C07_SilentAfterEnd ==   \* once ended nothing is committed, except a receiver's final ACK
  /\ pc = "exited" => out = None
  /\ pc = "done" => out = None \/ (Receiving /\ out.k = "ack" /\ out.n = Wire(base))
C07_FailedSilent   == pc = "failed" => out \in {None, ErrOut}
C07_BoundedRetries == pc \in {"check", "run"} => retry < MaxRetries
C07_DoneOnlyAtEnd  == Sending /\ pc = "done" => eof /\ len = 0

\* C08
C08_Outstanding == Sending => len <= p.W /\ (out.k = "data" => out.last - base <= p.W)
C08_WindowNonEmptyWhileRunning == Sending /\ pc = "run" => len >= 1
C08_ReceiverBuffersLessThanW == Receiving /\ AtRecv /\ pc = "run" => len < p.W

\* C02
C02_AckImpliesStored ==
  Receiving /\ out.k = "ack" => /\ CSLen(buf) = 0 /\ CSLen(file) + ne = base /\ out.n = Wire(base)
C02_FileIsAcceptedPrefix ==
  Receiving => /\ CSLen(file) + CSLen(buf) + ne = base
               /\ (pc = "run" => CSLen(buf) = len)
               /\ ne \in {0, 1}
               /\ (pc \in {"done"} => CSLen(buf) = 0)

\* C13, first clause
C13_CleanupIffFailedAndClean ==
  Receiving /\ pc = "exited" => (fexists <=> (ok \/ ~p.clean))

=============================================================================
