SPECIFICATION Spec
CONSTANTS
  WParams <- ReadersFull
  MaxFile = 60
  MaxOps = 14
VIEW View
ACTION_CONSTRAINT PrintScript
CHECK_DEADLOCK FALSE
INVARIANTS C18_Bounded C18_ReaderSlices
PROPERTIES C18_AppendOnly
