SPECIFICATION Spec
CONSTANTS
  Params <- RecvCoreFull
  MaxBase = 6
  MaxHist = 1000000
VIEW View
ACTION_CONSTRAINT PrintScript
CHECK_DEADLOCK FALSE
INVARIANTS
  TypeOK
  C01_SliceOK C01_NoGapEmitted C01_AckedWasSent
  C07_NoBeyondFinal C07_EofIffLast C07_SilentAfterEnd C07_FailedSilent C07_BoundedRetries C07_DoneOnlyAtEnd
  C08_Outstanding C08_WindowNonEmptyWhileRunning C08_ReceiverBuffersLessThanW
  C02_AckImpliesStored C02_FileIsAcceptedPrefix
  C13_CleanupIffFailedAndClean C13_KeptIsPrefix
PROPERTIES
  C08_RetransmitOnlyOnTimeoutOrGap C08_ResumeAtKPlus1 C08_StaleAckInert
  C07_EndsOnError C07_GivesUp C02_AckOnlyInSeq C04_BudgetIsForConsecutiveFailures
