------------------------------ MODULE MC_Server ------------------------------
EXTENDS Server
CONSTANTS InitialFiles      \* names that exist before the server starts
Init == SInit([n \in Names |-> IF n \in InitialFiles THEN Pre(1) ELSE Absent])
Spec == Init /\ [][SNext]_svars
View == <<disk, workers, clients, accepted>>

\* C06: without --overwrite a file that was there before the server started is never touched
C06_PreexistingUntouched ==
  [][\A n \in Names : (~Overwrite /\ disk[n].st = "file" /\ disk[n].by = 0) => disk'[n] = disk[n]]_svars
\* C06: a refusal changes nothing and starts nothing
C06_RefusalHasNoEffect ==
  [][(Len(replies') > Len(replies) /\ replies'[Len(replies')].k = "error") =>
        /\ disk' = disk /\ workers' = workers /\ clients' = clients]_svars
=============================================================================
