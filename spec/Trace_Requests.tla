--------------------------- MODULE Trace_Requests ---------------------------
(***************************************************************************)
(* Judges exchanges recorded against the real tftpd PROCESS                 *)
(* (drivers/net.py): for every datagram sent to the listening port, TLC     *)
(* decodes the recorded bytes with Codec.Decode, evaluates Predict, and     *)
(* compares the first reply (class, contents, source port) and the change   *)
(* of the sandbox trees with what was observed.                             *)
(***************************************************************************)
EXTENDS Requests, Json, IOUtils

Rec == ndJsonDeserialize(IOEnv.TRACE)
N == Len(Rec)
VARIABLES l, env      \* env: the cfg event in force (flags and trees)
E == Rec[l]

SetOf(seq) == {seq[i] : i \in 1..Len(seq)}
TraceInit == l = 1 /\ env = [none |-> TRUE]

Flags == [single |-> env.single, ro |-> env.ro, ow |-> env.ow, clean |-> env.clean]
Exp == Predict(Decode(E.bytes), Flags, SetOf(env.ts), SetOf(env.tr), E.known)

ReplyMatches(x) ==
  CASE x.reply.k = "none"  -> E.reply.k = "none"
    [] x.reply.k = "error" -> E.reply.k = "error" /\ E.reply.code = x.reply.code
    [] x.reply.k = "oack"  -> E.reply.k = "oack" /\ E.reply.opts = x.reply.opts
    [] x.reply.k = "ack0"  -> E.reply.k = "ack" /\ E.reply.n = 0
    [] x.reply.k = "data1" -> E.reply.k = "data" /\ E.reply.n = 1 /\ E.reply.cid = x.reply.cid
                               /\ E.reply.len = x.reply.len
FromMatches(x) == x.from = "na" \/ E.from = x.from

\* expected change of the trees: an accepted, creatable upload that the driver completed
\* with one short block of content E.up leaves exactly that content at the target
ExpDelta(x) ==
  IF x.write /\ E.completed
  THEN {[root |-> "recv", path |-> x.target, cid |-> E.up]}
  ELSE {}
DeltaMatches(x) == SetOf(E.delta) = ExpDelta(x)
CompletionMatches(x) == (x.cause = "accept" /\ Decode(E.bytes).t = "wrq" /\ E.tried) => (E.completed = x.write)

Verdict ==
  LET x == Exp IN
  IF ~ReplyMatches(x)
  THEN CASE E.probe -> "C05:ProbeNotServed"
         [] x.cause = "badpath" -> "C03:ReplyForBadPath"
         [] x.cause \in {"ro", "exists", "missing"} -> "C06:Refusal"
         [] x.cause = "options" -> "C09,C05:UnhonourableAcknowledged"
         [] x.cause = "accept" /\ x.reply.k = "oack" -> "C09:Oack"
         [] x.cause = "accept" /\ x.reply.k = "data1" -> "C03,C01:WrongFileServed"
         [] x.cause = "foreign" -> "C12:ForeignNotRefused"
         [] x.cause = "undecodable" -> "C05,C10:ReplyToUndecodable"
         [] OTHER -> "C06:Reply"
  ELSE IF ~FromMatches(x) THEN (IF x.reply.k = "error" THEN "C06:RefusalPort" ELSE "C12:SourcePort")
  ELSE IF ~DeltaMatches(x)
       THEN IF \E d \in SetOf(E.delta) : d.root # "recv" \/ (x.target # <<>> /\ d.path # x.target) \/ ~x.write
            THEN (IF x.cause \in {"ro", "exists", "missing"} THEN "C06,C03:EffectOfRefusal" ELSE "C03:Effect")
            ELSE "C06,C02:UploadContent"
  ELSE IF ~CompletionMatches(x) THEN "C06:UploadNotServed"
  ELSE "ok"

TCfg == l <= N /\ E.e = "cfg" /\ env' = E /\ l' = l + 1
TReq ==
  /\ l <= N /\ E.e = "req"
  /\ LET v == Verdict IN (v # "ok") => PrintT(<<"DEV", l, v>>)
  /\ UNCHANGED env /\ l' = l + 1
TDead ==     \* the server process is gone: nothing explains that
  /\ l <= N /\ E.e = "dead"
  /\ PrintT(<<"DEV", l, "C05:ListenerDied">>)
  /\ UNCHANGED env /\ l' = l + 1
TOther == l <= N /\ E.e \notin {"cfg", "req", "dead"} /\ UNCHANGED env /\ l' = l + 1
TraceNext == TCfg \/ TReq \/ TDead \/ TOther
TraceSpec == TraceInit /\ [][TraceNext]_<<l, env>>
TraceAccepted ==
  LET d == TLCGet("stats").diameter IN
  IF d - 1 = N THEN TRUE ELSE Print(<<"STUCK", d>>, FALSE)
=============================================================================
