SPECIFICATION Spec
CONSTANTS
  CParams <- ClosedQuick
  ChanCap = 6
CHECK_DEADLOCK FALSE
INVARIANTS C04_NoFailureUnderBudget C14_ReceiverDoneHasAll C14_SenderDoneMeansDelivered C02_PrefixOnly
PROPERTIES C04_Terminates C04_CompletesWithoutFaults
