SPECIFICATION Spec
CONSTANTS
  Mode = "names"
  L = 6
ACTION_CONSTRAINT PrintVector
CHECK_DEADLOCK FALSE
INVARIANTS C03_AcceptImpliesInside C09_OackLaws
