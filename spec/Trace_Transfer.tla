--------------------------- MODULE Trace_Transfer ---------------------------
(***************************************************************************)
(* Trace specification for the transfer worker: judges traces recorded     *)
(* from the real tftpd::Worker (harness/src/sim.rs) against Transfer.tla.  *)
(*                                                                         *)
(* The trace file (ndjson, path in env TRACE) is a concatenation of runs;  *)
(* each run starts with a `cfg` event that resets the specification's      *)
(* variables to InitVals(parameters of that run).  Every other event must  *)
(* be explained by one of Transfer's own actions (TIn / TOut / TExit) or   *)
(* be an observation that agrees with the current state (TSnap / TEnd).    *)
(* An event that no action explains is a DEVIATION: it is classified by    *)
(* Label (which listed property it violates), printed, and the rest of the *)
(* run is skipped so that the remaining runs are still judged.             *)
(***************************************************************************)
EXTENDS Transfer, Json, IOUtils

Rec == ndJsonDeserialize(IOEnv.TRACE)
N == Len(Rec)

VARIABLES l,      \* position in Rec
          dev,    \* the current run has deviated; skip to the next cfg
          why,    \* what committed the outputs now pending ("init","ack","time","inseq","ooseq","chk")
          prev,   \* the last datagram handed to the socket (for copy counting)
          lin     \* the last input event

tvars == <<vars, l, dev, why, prev, lin>>

E == Rec[l]

ParamsOf(e) ==
  [role |-> e.role, M |-> e.M, W |-> e.W, NB |-> e.NB, R |-> e.R, T |-> e.T,
   chk |-> e.chk, clean |-> e.clean, base0 |-> e.base0, lastempty |-> e.lastempty,
   devfull |-> e.devfull]

Idle == [role |-> "send", M |-> 65536, W |-> 1, NB |-> 1, R |-> 1, T |-> 2,
         chk |-> TRUE, clean |-> TRUE, base0 |-> 0, lastempty |-> FALSE, devfull |-> FALSE]

TraceInit ==
  /\ l = 1 /\ dev = TRUE /\ why = "init" /\ prev = <<"none">> /\ lin = None
  /\ InitWith(Idle)

\* ---- a new run: reset to the initial state of its parameters ----
TCfg ==
  /\ l <= N /\ E.e = "cfg"
  /\ LET pp == ParamsOf(E)
         v  == InitVals(pp) IN
     /\ p' = pp /\ pc' = v.pc /\ base' = v.base /\ len' = v.len /\ eof' = v.eof
     /\ retry' = v.retry /\ el' = v.el /\ out' = v.out /\ buf' = v.buf /\ file' = v.file
     /\ fexists' = v.fexists /\ ok' = v.ok /\ hi' = v.hi /\ ne' = v.ne
  /\ dev' = FALSE /\ why' = "init" /\ prev' = <<"none">> /\ lin' = None
  /\ l' = l + 1

\* ---- an input: the action of Transfer selected by what recv returned ----
TIn ==
  /\ l <= N /\ ~dev /\ E.e = "in"
  /\ pc \in {"check", "run"} /\ AtRecv
  /\ IF Sending
     THEN CASE E.k = "ack" ->
                 IF pc = "check"
                 THEN (IF E.n = 0 THEN CheckAck0 ELSE CheckAckNonZero) /\ why' = "chk"
                 ELSE IF InWindow(E.n)
                      THEN SendRecvAckInWindow(E.n) /\ why' = "ack"
                      ELSE SendRecvAckOutside(E.n, E.dt) /\ why' = "time"
            [] E.k = "err"   -> (IF pc = "check" THEN CheckEnd ELSE RecvError) /\ why' = "time"
            [] E.k = "fail"  -> (IF pc = "check" THEN CheckEnd ELSE SendRecvFail(E.dt)) /\ why' = "time"
            [] E.k = "stray" -> IF pc = "check" THEN CheckOther /\ why' = "chk"
                                ELSE SendRecvFail(E.dt) /\ why' = "time"
     ELSE CASE E.k = "data" ->
                 IF E.n = Wire(base + 1)
                 THEN RecvDataInSeq(E.n, E.id, E.sz) /\ why' = "inseq"
                 ELSE RecvDataOutOfSeq(E.n) /\ why' = "ooseq"
            [] E.k = "err" -> RecvError /\ why' = "time"
            [] E.k \in {"fail", "stray"} -> RecvRecvFail /\ why' = "time"
  /\ lin' = E
  /\ UNCHANGED <<dev, prev>>
  /\ l' = l + 1

\* ---- an output: must be exactly the next committed datagram ----
OutMatches ==
  LET x == NextOut IN
  CASE x.k = "data" -> E.k = "data" /\ E.n = x.n /\ E.i = x.i /\ E.sz = x.sz
    [] x.k = "ack"  -> E.k = "ack" /\ E.n = x.n /\ ((Receiving /\ ~p.devfull) => E.file = file)
    [] x.k = "err"  -> E.k = "err" /\ E.code = 4
    [] OTHER -> FALSE

OutKey(e) == IF e.k = "data" THEN <<"data", e.n, e.i, e.sz>>
             ELSE IF e.k = "ack" THEN <<"ack", e.n>> ELSE <<e.k>>

TOut ==
  /\ l <= N /\ ~dev /\ E.e = "out"
  /\ out # None /\ OutMatches
  /\ Emit
  /\ prev' = OutKey(E)
  /\ UNCHANGED <<dev, why, lin>>
  /\ l' = l + 1

\* ---- a snapshot of the worker's scalars just before it waits: must agree ----
SnapMatches ==
  IF Sending
  THEN E.s = TRUE /\ E.bn = Wire(base + 1) /\ E.wl = len /\ E.rc = retry /\ E.eof = eof
  ELSE E.s = FALSE /\ E.bn = Wire(base) /\ E.wl = len /\ E.rc = retry

TSnap ==
  /\ l <= N /\ ~dev /\ E.e = "snap"
  /\ pc = "run" /\ AtRecv /\ SnapMatches
  /\ UNCHANGED <<vars, dev, why, prev, lin>>
  /\ l' = l + 1

\* ---- the worker thread has left: outcome and file state must be the spec's ----
TExit ==
  /\ l <= N /\ ~dev /\ E.e = "exit"
  /\ pc \in {"done", "failed"} /\ out = None
  /\ E.ok = (IF pc = "done" THEN "true" ELSE "false")
  /\ Exit
  /\ Receiving => /\ E.exists = fexists'
                  /\ (fexists' /\ ~p.devfull) => E.file = file
  /\ UNCHANGED <<dev, why, prev, lin>>
  /\ l' = l + 1

\* ---- the script ended while the worker waits for input ----
TEnd ==
  /\ l <= N /\ ~dev /\ E.e = "end"
  /\ pc \in {"check", "run"} /\ AtRecv
  /\ UNCHANGED <<vars, dev, why, prev, lin>>
  /\ l' = l + 1

\* ---- (real-process traces) nothing more arrived within the quiet interval ----
TQuiet ==
  /\ l <= N /\ ~dev /\ E.e = "quiet"
  /\ out = None
  /\ UNCHANGED <<vars, dev, why, prev, lin>>
  /\ l' = l + 1

\* ---- (real-process traces) the server has not reported the end of this transfer ----
TAlive ==
  /\ l <= N /\ ~dev /\ E.e = "alive"
  /\ pc \in {"check", "run"} /\ out = None
  /\ UNCHANGED <<vars, dev, why, prev, lin>>
  /\ l' = l + 1

Matched == TIn \/ TOut \/ TSnap \/ TExit \/ TEnd \/ TQuiet \/ TAlive

-----------------------------------------------------------------------------
(* Classification of a deviation: which listed property does the first      *)
(* unexplained event violate?  (DESIGN.md section 8)                        *)

\* the current or the next window touches or lies beyond a multiple of M
NearWrap == base + len + 2 >= p.M

\* The last input was an ACK for a block that was never sent (beyond what is outstanding,
\* and not the number of any block acknowledged earlier).  No conformant peer sends it and
\* no listed property fixes the reaction: the specification records "ignored"; a worker
\* that gives up instead is reported as unattributed drift ("X"), not as a violation.
FutureAck ==
  /\ lin # None /\ lin.k = "ack" /\ pc = "run" /\ ~InWindow(lin.n)
  /\ ~(base >= p.M - 1 \/ lin.n <= base)

SenderLabel ==
  CASE E.e = "exit" /\ FutureAck /\ E.ok # "true" -> "X:FutureAckAbort"
    [] E.e = "out" ->
         IF pc = "failed" /\ out = None /\ p.chk /\ hi = p.base0 /\ E.k = "data"
         THEN "C07,C01:DataAfterFailedHandshake"      \* options were never agreed, yet blocks cut to them flow
         ELSE IF pc \in {"done", "exited"} \/ (pc = "failed" /\ out = None) THEN "C07:EmitAfterEnd"
         ELSE IF out = None
              THEN IF E.k # "data" THEN "C07:UnexpectedOutput"
                   ELSE IF OutKey(E) = prev /\ why # "time" THEN (IF p.R = 1 THEN "C08,C16:ExtraCopy" ELSE "C16:ExtraCopy")
                   ELSE IF E.n = Wire(base + len + 1)
                        THEN (IF base + len >= p.NB THEN "C07,C01:BeyondFinal" ELSE "C08:ExceedsWindow")
                        ELSE "C08:UncommittedTransmission"
              ELSE IF OutKey(E) = prev /\ out.k # "err" /\ out.c = 0 THEN (IF p.R = 1 THEN "C08,C16:ExtraCopy" ELSE "C16:ExtraCopy")
                   ELSE IF out.k # "err" /\ out.c > 0 THEN "C16:MissingCopy"
                   ELSE IF out.k = "err" THEN "C07:MissingErrorReply"
                   ELSE IF E.k = "data" /\ E.n = Wire(out.next) THEN "C01:WrongContent"
                   ELSE IF why = "ack" THEN "C08,C01:WrongBlock"
                   ELSE "C01:WrongBlock"
    [] E.e \in {"snap", "in", "end", "quiet", "alive"} ->
         IF out # None
         THEN IF out.k = "err" THEN "C07:MissingErrorReply"
              ELSE IF out.c > 0 THEN "C16:MissingCopy"
              ELSE IF why = "time" THEN "C04:MissingRetransmission"
              ELSE "C08,C01:MissingTransmission"
         ELSE IF pc \in {"done", "failed"} THEN "C07:NoExit"
         ELSE IF E.e = "snap"
              THEN IF E.bn # Wire(base + 1) \/ E.wl # len THEN "C01,C08:Scalar"
                   ELSE IF E.rc # retry THEN "C04,C07:RetryCounter"
                   ELSE "C07:EofFlag"
              ELSE "C07:Unexplained"
    [] E.e = "exit" ->
         IF out # None
         THEN (IF E.ok = "true" THEN "C07,C04,C01:EndedWithBlocksOutstanding"     \* reports success, peer lacks the tail
               ELSE IF why = "time" THEN "C04:MissingRetransmission" ELSE "C08,C01:MissingTransmission")
         ELSE IF pc \in {"check", "run"}
              THEN IF E.ok = "true" THEN "C07,C01:EarlyExitOk" ELSE "C04,C08:GaveUpEarly"
              ELSE "C07:WrongOutcome"
    [] OTHER -> "C07:Hang"

ReceiverLabel ==
  CASE E.e = "out" ->
         IF pc \in {"exited"} \/ (pc \in {"done", "failed"} /\ out = None) THEN "C07:EmitAfterEnd"
         ELSE IF out = None
              THEN IF E.k = "ack" /\ OutKey(E) = prev THEN (IF p.R = 1 THEN "C02,C16:ExtraCopy" ELSE "C16:ExtraCopy") ELSE "C02:UnexpectedAck"
              ELSE IF E.k = "ack" /\ OutKey(E) = prev /\ out.c = 0 THEN (IF p.R = 1 THEN "C02,C16:ExtraCopy" ELSE "C16:ExtraCopy")
                   ELSE IF out.c > 0 THEN "C16:MissingCopy"
                   ELSE IF E.k # "ack" THEN "C02:WrongKind"
                   ELSE IF E.n # out.n THEN (IF why = "ooseq" THEN "C02,C04:ReAckNumber" ELSE "C02:AckNumber")
                   ELSE "C02:AckNotStored"
    [] E.e \in {"snap", "in", "end", "quiet", "alive"} ->
         IF out # None
         THEN IF out.c > 0 THEN "C16:MissingCopy"
              ELSE IF why = "ooseq" THEN "C04:MissingReAck" ELSE "C08,C02:MissingAck"
         ELSE IF pc \in {"done", "failed"} THEN "C07:NoExit"
         ELSE IF E.e = "snap"
              THEN IF E.bn # Wire(base) \/ E.wl # len THEN "C02,C08:Scalar"
                   ELSE "C04,C07,C13:RetryCounter"    \* decides when (and whether) a silent peer's upload is given up and cleaned
              ELSE "C07:Unexplained"
    [] E.e = "exit" ->
         IF out # None THEN (IF why = "ooseq" THEN "C04:MissingReAck" ELSE "C08,C02:MissingAck")
         ELSE IF pc \in {"check", "run"}
              THEN IF E.ok = "true" THEN "C07,C02,C13:EarlyExitOk" ELSE "C04:GaveUpEarly"   \* a partial file is kept as if complete
              ELSE IF E.ok # (IF pc = "done" THEN "true" ELSE "false") THEN "C07:WrongOutcome"
              ELSE IF E.exists # (IF pc = "failed" /\ p.clean THEN FALSE ELSE fexists) THEN "C13:Cleanup"
              ELSE IF pc = "done" THEN "C02:FileAtEnd" ELSE "C13:KeptNotPrefix"
    [] OTHER -> "C07:Hang"

\* In a window at or beyond the block-number wrap every divergence also breaks C15 ("transfers
\* beyond 65535 blocks stay correct"); in duplicate-packets mode every divergence also breaks
\* C16 ("... stays correct").
\* A DATA datagram whose number is not the number of the slice it carries breaks C01 whatever
\* else is wrong with it.
Misnumbered == Sending /\ E.e = "out" /\ E.k = "data" /\ (E.i = 0 \/ E.n # Wire(E.i))
Label == (IF Sending THEN SenderLabel ELSE ReceiverLabel)
         \o (IF NearWrap THEN "+C15" ELSE "") \o (IF p.R > 1 THEN "+C16" ELSE "")
         \o (IF Misnumbered THEN "+C01" ELSE "")

Deviate ==
  /\ l <= N /\ ~dev /\ E.e # "cfg"
  /\ ~ ENABLED Matched
  /\ PrintT(<<"DEV", l, Label>>)
  /\ dev' = TRUE
  /\ UNCHANGED <<vars, why, prev, lin>>
  /\ l' = l + 1

Skip ==
  /\ l <= N /\ dev /\ E.e # "cfg"
  /\ UNCHANGED <<vars, dev, why, prev, lin>>
  /\ l' = l + 1

TraceNext == TCfg \/ Matched \/ Deviate \/ Skip
TraceSpec == TraceInit /\ [][TraceNext]_tvars

\* every line consumed, one state per line plus the initial state
TraceAccepted ==
  LET d == TLCGet("stats").diameter IN
  IF d - 1 = N THEN TRUE
  ELSE Print(<<"STUCK", d, IF d <= N THEN Rec[d] ELSE "eof">>, FALSE)

=============================================================================
