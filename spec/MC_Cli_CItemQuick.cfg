SPECIFICATION Spec
CONSTANTS
  Mode = "citem"
  K = 2
ACTION_CONSTRAINT PrintVector
CHECK_DEADLOCK FALSE
INVARIANTS C17_FoldIsDecl C17_OrderIndependent
