----------------------------- MODULE MC_Requests -----------------------------
(* Enumerations for the listener's pure decisions: file names over a path-     *)
(* segment alphabet (C03), option lists (C09), policy rows (C06).  Laws are    *)
(* checked on every point; every point is printed as a request vector.         *)
EXTENDS Requests, Json

CONSTANTS Mode, L
VARIABLES v, n
cvars == <<v, n>>

Sigma == {SLASH, BSLASH, DOT, 97, 98}

\* ---- names: the state is the name, built one symbol at a time ----
NextNames == Len(v) < L /\ \E c \in Sigma : v' = Append(v, c) /\ n' = n + 1

\* ---- option lists: the state is the list ----
OVals == { <<0>>, <<1>>, <<7>>, <<8>>, <<9>>, <<5, 1, 2>>, <<6, 5, 4, 6, 4>>, <<6, 5, 4, 6, 5>>, <<6, 5, 5, 3, 5>>,
           <<6, 5, 5, 3, 6>>, <<2, 5, 5>>, <<4, 2, 9, 4, 9, 6, 7, 2, 9, 6>>, MAXU64 }
OItems == { [o |-> o, v |-> x] : o \in {"blksize", "timeout", "tsize", "windowsize"}, x \in OVals }
NextOpts == Len(v) < L /\ \E it \in OItems : v' = Append(v, it) /\ n' = n + 1
\* reduced value set for deeper lists in the quick tier: one value per class around each boundary
QVals == { <<0>>, <<8>>, <<6, 5, 4, 6, 4>>, <<6, 5, 4, 6, 5>>, <<6, 5, 5, 3, 6>> }
QItems == { [o |-> o, v |-> x] : o \in {"blksize", "timeout", "tsize", "windowsize"}, x \in QVals }
NextOptsQ == Len(v) < L /\ \E it \in QItems : v' = Append(v, it) /\ n' = n + 1

Init == v = <<>> /\ n = 0
Next == CASE Mode = "names" -> NextNames [] Mode = "opts" -> NextOpts [] Mode = "optsq" -> NextOptsQ
Spec == Init /\ [][Next]_cvars

PrintVector ==
  IF Mode = "names" THEN PrintT(<<"SCRIPT", ToJson([name |-> v'])>>)
  ELSE PrintT(<<"SCRIPT", ToJson([opts |-> v'])>>)

\* C03: acceptance implies confinement, for every name
C03_AcceptImpliesInside == (Mode = "names") => C03_Confined(v)
\* C09: the OACK laws for every list, both request kinds, several file sizes
C09_OackLaws == (Mode \in {"opts", "optsq"}) =>
  \A kind \in {"rrq", "wrq"}, fsize \in {0, 1, 511, 512, 100000} : C09_Laws(kind, v, fsize)
=============================================================================
