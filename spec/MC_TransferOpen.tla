-------------------------- MODULE MC_TransferOpen --------------------------
(* Bounded instances of TransferOpen: parameter grids as sets of records.   *)
EXTENDS TransferOpen

MkS(M, W, NB, R, chk, le, b0) ==
  [role |-> "send", M |-> M, W |-> W, NB |-> NB, R |-> R, T |-> 2, chk |-> chk,
   clean |-> TRUE, base0 |-> b0, lastempty |-> le, devfull |-> FALSE]
MkR(M, W, R, clean, b0) ==
  [role |-> "recv", M |-> M, W |-> W, NB |-> 0, R |-> R, T |-> 2, chk |-> FALSE,
   clean |-> clean, base0 |-> b0, lastempty |-> FALSE, devfull |-> FALSE]

RealM == 65536

\* core grid at the real modulus
SendCoreQuick == { MkS(RealM, W, NB, 1, chk, le, 0) :
                     W \in 1..2, NB \in 1..3, chk \in BOOLEAN, le \in BOOLEAN }
              \cup { MkS(RealM, 3, 4, 1, FALSE, le, 0) : le \in BOOLEAN }
SendCoreFull  == { MkS(RealM, W, NB, R, chk, le, 0) :
                     W \in 1..4, NB \in 1..6, R \in 1..2, chk \in BOOLEAN, le \in BOOLEAN }
RecvCoreQuick == { MkR(RealM, W, 1, clean, 0) : W \in 1..3, clean \in BOOLEAN }
RecvCoreFull  == { MkR(RealM, W, R, clean, 0) : W \in 1..4, R \in 1..2, clean \in BOOLEAN }

\* duplicate-packets mode
SendDup == { MkS(RealM, W, NB, R, FALSE, le, 0) : W \in 1..2, NB \in 1..3, R \in 2..3, le \in {FALSE} }
RecvDup == { MkR(RealM, W, R, TRUE, 0) : W \in 1..2, R \in 2..3 }

\* wrap-around, small modulus: exhaustive across several wraps, every W <= M-1
SendWrapSmall == { MkS(4, W, NB, 1, FALSE, FALSE, 0) : W \in 1..3, NB \in {9, 10} }
             \cup { MkS(8, W, 17, 1, FALSE, TRUE, 0) : W \in {1, 3, 6, 7} }
RecvWrapSmall == { MkR(4, W, 1, TRUE, 0) : W \in 1..3 } \cup { MkR(8, W, 1, TRUE, 0) : W \in {6, 7} }

\* wrap-around at the real modulus: start after a conformant prefix of base0 blocks
SendWrapReal == { MkS(RealM, W, 65536 + 3, 1, chk, FALSE, b0) : W \in 1..3, b0 \in {65533, 65534}, chk \in BOOLEAN }
RecvWrapReal == { MkR(RealM, W, 1, TRUE, b0) : W \in 1..3, b0 \in {65533, 65534} }

\* boundary window sizes 65534 / 65535: short files (window never full) ...
SendBigWShort == { MkS(RealM, W, NB, 1, FALSE, FALSE, 0) : W \in {65534, 65535}, NB \in {1, 3} }
\* ... and full windows, which also straddle the wrap (one 65535-datagram burst per script)
SendBigWFull  == { MkS(RealM, W, 65536 + 2, 1, FALSE, FALSE, 0) : W \in {65534, 65535} }
RecvBigW      == { MkR(RealM, W, 1, TRUE, 0) : W \in {65534, 65535} }

\* uploads whose target cannot be written (write error as abort cause)
RecvDevfull == { [MkR(RealM, W, 1, clean, 0) EXCEPT !.devfull = TRUE] : W \in 1..3, clean \in BOOLEAN }

\* uploads over a target that already exists with longer content (the harness pre-fills the file;
\* the specification is unaffected: File::create truncates)
RecvPrefill == { [MkR(RealM, W, 1, clean, 0) EXCEPT !.NB = 4] : W \in 1..2, clean \in BOOLEAN }
=============================================================================
