SPECIFICATION Spec
CONSTANTS
  WParams <- ReadersQuick
  MaxFile = 40
  MaxOps = 12
VIEW View
ACTION_CONSTRAINT PrintScript
CHECK_DEADLOCK FALSE
INVARIANTS C18_Bounded C18_ReaderSlices
PROPERTIES C18_AppendOnly
