------------------------------- MODULE Client -------------------------------
(***************************************************************************)
(* The bundled client tftpc (src/client.rs) up to the point where it hands *)
(* the transfer to a Worker: the request it builds, and how it reacts to   *)
(* the first reply.  Recorded behaviour of the code, including what it     *)
(* knowingly lacks: it adopts the values of an OACK without checking them  *)
(* against what it asked for, truncates windowsize to 16 bits, ignores the *)
(* acknowledged timeout for its worker (fixed 5 s), treats a plain DATA 1  *)
(* in reply to its RRQ (a server without option support) as an error, and  *)
(* accepts ANY ACK number in reply to a WRQ.                               *)
(***************************************************************************)
EXTENDS Codec

OCTETB == <<111, 99, 116, 101, 116>>
RECURSIVE NatDigits(_)
NatDigits(n) == IF n < 10 THEN <<n>> ELSE Append(NatDigits(n \div 10), n % 10)

\* cp: [mode ("download" | "upload"), blk, win, tmo, fsize, name (bytes as sent)]
Request(cp) ==
  [t |-> IF cp.mode = "download" THEN "rrq" ELSE "wrq", fn |-> cp.name, mode |-> OCTETB,
   opts |-> << [o |-> "blksize", v |-> NatDigits(cp.blk)], [o |-> "windowsize", v |-> NatDigits(cp.win)],
               [o |-> "timeout", v |-> NatDigits(cp.tmo)],
               [o |-> "tsize", v |-> NatDigits(IF cp.mode = "download" THEN 0 ELSE cp.fsize)] >>]

RECURSIVE DigitsVal(_)
DigitsVal(d) == IF d = <<>> THEN 0 ELSE DigitsVal(SubSeq(d, 1, Len(d) - 1)) * 10 + d[Len(d)]
LastOpt(opts, o, dflt) ==
  LET S == {i \in 1..Len(opts) : opts[i].o = o} IN
  IF S = {} THEN dflt ELSE DigitsVal(opts[CHOOSE i \in S : \A j \in S : j <= i].v)

\* what the client does after the first reply `r` (a decoded packet, or Err for undecodable):
\* [next: the first datagram it sends afterwards ("ack0" | "data1" | "none"), len of that DATA,
\*  creates: it creates its target file (download), error: it reports an error and ends]
React(cp, r) ==
  LET none == [next |-> "none", len |-> 0, creates |-> FALSE, error |-> TRUE]
      first(blk) == IF cp.fsize < blk THEN cp.fsize ELSE blk IN
  IF r = Err THEN none
  ELSE IF r.t = "error" THEN none
  ELSE IF r.t = "oack"
  THEN LET blk == LastOpt(r.opts, "blksize", cp.blk)
           win == LastOpt(r.opts, "windowsize", cp.win) % 65536 IN
       IF cp.mode = "download"
       THEN [next |-> "ack0", len |-> 0, creates |-> TRUE, error |-> FALSE]
       ELSE IF win = 0 THEN [next |-> "none", len |-> 0, creates |-> FALSE, error |-> FALSE]   \* a window of size 0 never sends
       ELSE [next |-> "data1", len |-> first(blk), creates |-> FALSE, error |-> FALSE]
  ELSE IF r.t = "ack" /\ cp.mode = "upload"
  THEN [next |-> "data1", len |-> first(512), creates |-> FALSE, error |-> FALSE]
  ELSE none

\* design-level sanity: with a truthful server (Options.Negotiate) the client's worker uses the
\* acknowledged values; stated and checked in MC_Client
=============================================================================
