#!/usr/bin/env python3
"""Writes the MC_*.cfg files for MC_TransferOpen (one source of truth for the invariant list)."""
INV = """INVARIANTS
  TypeOK
  C01_SliceOK C01_NoGapEmitted C01_AckedWasSent
  C07_NoBeyondFinal C07_EofIffLast C07_SilentAfterEnd C07_FailedSilent C07_BoundedRetries C07_DoneOnlyAtEnd
  C08_Outstanding C08_WindowNonEmptyWhileRunning C08_ReceiverBuffersLessThanW
  C02_AckImpliesStored C02_FileIsAcceptedPrefix
  C13_CleanupIffFailedAndClean C13_KeptIsPrefix
PROPERTIES
  C08_RetransmitOnlyOnTimeoutOrGap C08_ResumeAtKPlus1 C08_StaleAckInert
  C07_EndsOnError C07_GivesUp C02_AckOnlyInSeq C04_BudgetIsForConsecutiveFailures
"""
BIG = 1000000
CFGS = {
    # name: (Params, MaxBase, MaxHist)
    "SendCoreQuick": ("SendCoreQuick", BIG, BIG),
    "SendCoreFull": ("SendCoreFull", BIG, BIG),
    "RecvCoreQuick": ("RecvCoreQuick", 4, BIG),
    "RecvCoreFull": ("RecvCoreFull", 6, BIG),
    "SendDup": ("SendDup", BIG, BIG),
    "RecvDup": ("RecvDup", 3, BIG),
    "SendWrapSmall": ("SendWrapSmall", BIG, BIG),
    "RecvWrapSmall": ("RecvWrapSmall", 18, BIG),
    "SendWrapReal": ("SendWrapReal", BIG, 3),
    "SendWrapRealDeep": ("SendWrapReal", BIG, 5),
    "RecvWrapReal": ("RecvWrapReal", 65540, 3),
    "RecvWrapRealDeep": ("RecvWrapReal", 65540, 5),
    "SendBigWShort": ("SendBigWShort", BIG, BIG),
    "SendBigWFull": ("SendBigWFull", BIG, 1),
    "RecvBigW": ("RecvBigW", 5, 6),
    "RecvDevfull": ("RecvDevfull", 4, BIG),
    "RecvPrefill": ("RecvPrefill", 3, 5),
}
for name, (params, maxbase, maxhist) in CFGS.items():
    with open("MC_%s.cfg" % name, "w") as f:
        f.write("SPECIFICATION Spec\nCONSTANTS\n  Params <- %s\n  MaxBase = %d\n  MaxHist = %d\n"
                "VIEW View\nACTION_CONSTRAINT PrintScript\nCHECK_DEADLOCK FALSE\n%s" % (params, maxbase, maxhist, INV))
