SPECIFICATION Spec
CONSTANTS
  Mode = "opts"
  L = 1
ACTION_CONSTRAINT PrintVector
CHECK_DEADLOCK FALSE
INVARIANTS C03_AcceptImpliesInside C09_OackLaws
