SPECIFICATION Spec
CONSTANTS
  Endpoints = {"c1", "c2", "x"}
  Names = {"f", "g"}
  SinglePort = FALSE
  ReadOnly = FALSE
  Overwrite = FALSE
  Clean = TRUE
  AsCoded = FALSE
  MaxWorkers = 3
  NB = 2
  InitialFiles = {"g"}
VIEW View
CHECK_DEADLOCK FALSE
INVARIANTS C13_CompletedUploadSurvives C06_RefusalsFromListener C06_ReadOnlyStartsNoUpload C12_ReplyPorts C12_RouteOwnsEndpoint C05_ListenerNeverStops
PROPERTIES C06_PreexistingUntouched C06_RefusalHasNoEffect
