------------------------------ MODULE Requests ------------------------------
(***************************************************************************)
(* The listener's reaction to one datagram (src/server.rs: listen,         *)
(* handle_rrq, handle_wrq, route_packet): a pure function of the decoded   *)
(* packet, the policy flags and the two directory trees at that instant.   *)
(* This is the decision table of C06, with C03's path rule and C09's       *)
(* negotiation as sub-decisions.                                           *)
(***************************************************************************)
EXTENDS Codec, Paths, Options

NoReply == [k |-> "none"]
ErrorReply(c) == [k |-> "error", code |-> c]

\* flags: [single, ro, ow, clean]; Ts / Tr: send / receive directory trees
\* Result: [reply, from ("listener" | "worker" | "na"), cause, target (resolved path), write (BOOLEAN:
\*          an upload is started and its target can be created)]
Predict(pk, flags, Ts, Tr, known) ==
  LET base == [reply |-> NoReply, from |-> "na", cause |-> "undecodable", target |-> <<>>, write |-> FALSE]
      wport == IF flags.single THEN "listener" ELSE "worker" IN
  IF pk = Err THEN base
  ELSE IF pk.t = "rrq"
  THEN IF ~Accept(pk.fn)
       THEN [base EXCEPT !.reply = ErrorReply(2), !.from = "listener", !.cause = "badpath"]
       ELSE LET tgt == Resolve(pk.fn).path
                st == StateOf(Ts, tgt) IN
            IF st \in {"none", "notdir"} \/ (st = "file" /\ WantsDir(pk.fn))
            THEN [base EXCEPT !.reply = ErrorReply(1), !.from = "listener", !.cause = "missing", !.target = tgt]
            ELSE LET size == EntryOf(Ts, tgt).size
                     ng == Negotiate("rrq", pk.opts, size) IN
                 IF ~ng.ok THEN [base EXCEPT !.cause = "options", !.target = tgt]
                 ELSE IF ng.first = "oack"
                      THEN [base EXCEPT !.reply = [k |-> "oack", opts |-> ng.oack], !.from = wport,
                                        !.cause = "accept", !.target = tgt]
                      ELSE IF st = "dir"      \* reading a directory fails in the worker: nothing is sent
                           THEN [base EXCEPT !.cause = "isdir", !.target = tgt]
                           ELSE [base EXCEPT !.reply = [k |-> "data1", cid |-> EntryOf(Ts, tgt).cid,
                                                        len |-> IF size < 512 THEN size ELSE 512],
                                             !.from = wport, !.cause = "accept", !.target = tgt]
  ELSE IF pk.t = "wrq"
  THEN IF flags.ro
       THEN [base EXCEPT !.reply = ErrorReply(2), !.from = "listener", !.cause = "ro"]
       ELSE IF ~Accept(pk.fn)
       THEN [base EXCEPT !.reply = ErrorReply(2), !.from = "listener", !.cause = "badpath"]
       ELSE LET tgt == Resolve(pk.fn).path
                st == StateOf(Tr, tgt)
                present == st \in {"file", "dir"} /\ ~(st = "file" /\ WantsDir(pk.fn)) IN
            IF present /\ ~flags.ow
            THEN [base EXCEPT !.reply = ErrorReply(6), !.from = "listener", !.cause = "exists", !.target = tgt]
            ELSE LET ng == Negotiate("wrq", pk.opts, 0)
                     creatable == st \in {"file", "none"} /\ ~WantsDir(pk.fn) IN
                 IF ~ng.ok THEN [base EXCEPT !.cause = "options", !.target = tgt]
                 ELSE [base EXCEPT !.reply = IF ng.first = "oack" THEN [k |-> "oack", opts |-> ng.oack]
                                                                  ELSE [k |-> "ack0"],
                                   !.from = wport, !.cause = "accept", !.target = tgt, !.write = creatable]
  ELSE \* DATA / ACK / OACK / ERROR at the listening port from an endpoint that owns no transfer
       IF known THEN [base EXCEPT !.cause = "routed"]
       ELSE [base EXCEPT !.reply = ErrorReply(4), !.from = "listener", !.cause = "foreign"]

\* C06 as a law over the table: refusals come from the listening port and start nothing
C06_RefusalLaw(pk, flags, Ts, Tr) ==
  LET r == Predict(pk, flags, Ts, Tr, FALSE) IN
  /\ (pk # Err /\ pk.t = "wrq" /\ flags.ro) => (r.reply = ErrorReply(2) /\ ~r.write)
  /\ (r.reply.k = "error") => (r.from = "listener" /\ ~r.write)
  /\ (pk # Err /\ pk.t \in {"rrq", "wrq"} /\ ~Accept(pk.fn)) => r.reply = ErrorReply(2)
=============================================================================
