------------------------------ MODULE MC_Window ------------------------------
(* Bounded exploration of the window buffer's operation graph; one replay    *)
(* script per explored transition (see TransferOpen for the technique).      *)
EXTENDS Window, Json

CONSTANTS WParams, MaxFile, MaxOps
VARIABLES whist

ovars == <<wvars, whist>>

Pieces == {<<>>, <<201>>, <<202, 203>>, <<204, 205, 206, 207>>}

Op ==
  \/ Fill /\ whist' = Append(whist, [op |-> "fill"])
  \/ Empty /\ whist' = Append(whist, [op |-> "empty"])
  \/ \E k \in 0..(wp.size + 1) : Remove(k) /\ whist' = Append(whist, [op |-> "remove", k |-> k])
  \/ /\ ~wp.pure
     /\ \E d \in Pieces : Add(d) /\ whist' = Append(whist, [op |-> "add", d |-> d])

Init == \E pp \in WParams : WInitWith(pp) /\ whist = <<>>
Next == Len(file) <= MaxFile /\ Len(whist) < MaxOps /\ Op
Spec == Init /\ [][Next]_ovars
View == wvars
PrintScript == PrintT(<<"SCRIPT", ToJson([cfg |-> wp, steps |-> whist'])>>)

Mk(mode, size, chunk, flen, pure) == [mode |-> mode, size |-> size, chunk |-> chunk, flen |-> flen, pure |-> pure]
\* files of every length 0 .. (size+1)*chunk+1
ReadersQuick == { Mk("r", size, chunk, flen, TRUE) : size \in 0..2, chunk \in 1..2, flen \in 0..7 }
ReadersFull  == { Mk("r", size, chunk, flen, TRUE) : size \in 0..3, chunk \in 1..3, flen \in 0..13 }
MixedQuick   == { Mk(mode, size, 2, flen, FALSE) : mode \in {"r", "w"}, size \in 0..2, flen \in {0, 3} }
MixedFull    == { Mk(mode, size, chunk, flen, FALSE) : mode \in {"r", "w"}, size \in 0..3, chunk \in 1..2, flen \in {0, 3, 5} }
=============================================================================
