------------------------------- MODULE Window -------------------------------
(***************************************************************************)
(* The public window buffer of rs-tftpd (src/window.rs): a bounded queue   *)
(* of chunks over a file.  A sender's window is built over a file opened   *)
(* read-only ("r"): fill() hands out the file as chunk-size pieces.  A     *)
(* receiver's window is built over a freshly created write-only file       *)
(* ("w"): add() queues pieces, empty() appends them to the file.  The      *)
(* cross cases are modelled as what the OS does: the I/O call fails and    *)
(* nothing changes (except that writing zero bytes never reaches the OS).  *)
(*                                                                         *)
(* One action per public operation; `ret` is what the call returned.       *)
(***************************************************************************)
EXTENDS Naturals, Sequences, TLC

VARIABLES
  wp,      \* parameters [mode, size, chunk, flen, pure]: open mode, window size, chunk size,
           \* initial file length, and whether this instance refrains from add()
  file,    \* bytes of the file, as a sequence of small naturals
  cursor,  \* read position ("r")
  elems,   \* queued pieces, oldest first
  ret      \* result of the last operation: [op, ok, val]

wvars == <<wp, file, cursor, elems, ret>>

Min(a, b) == IF a < b THEN a ELSE b
SubSeqSafe(s, a, b) == IF a > b THEN <<>> ELSE SubSeq(s, a, b)

RECURSIVE Flatten(_)
Flatten(ss) == IF ss = <<>> THEN <<>> ELSE Head(ss) \o Flatten(Tail(ss))

\* initial file of a reader: bytes 1..flen, so that every slice is recognisable
InitFile(pp) == IF pp.mode = "r" THEN [i \in 1..pp.flen |-> i] ELSE <<>>

WInitWith(pp) ==
  /\ wp = pp /\ file = InitFile(pp) /\ cursor = 0 /\ elems = <<>>
  /\ ret = [op |-> "new", ok |-> TRUE, val |-> 0]

-----------------------------------------------------------------------------
\* fill(): `for _ in len..size` read one chunk; stop after the first short one.
\* Result of reading up to n more chunks from position c: <<pieces, new cursor, full?>>
RECURSIVE ReadChunks(_, _)
ReadChunks(c, n) ==
  IF n = 0 THEN <<<<>>, c, TRUE>>
  ELSE LET got == Min(wp.chunk, Len(file) - c)
           piece == SubSeqSafe(file, c + 1, c + got) IN
       IF got # wp.chunk THEN <<<<piece>>, c + got, FALSE>>
       ELSE LET rest == ReadChunks(c + got, n - 1) IN
            <<<<piece>> \o rest[1], rest[2], rest[3]>>

Fill ==
  IF wp.mode = "r" \/ Len(elems) >= wp.size
  THEN LET r == ReadChunks(cursor, IF Len(elems) >= wp.size THEN 0 ELSE wp.size - Len(elems)) IN
       /\ elems' = elems \o r[1] /\ cursor' = r[2]
       /\ ret' = [op |-> "fill", ok |-> TRUE, val |-> IF r[3] THEN 1 ELSE 0]
       /\ UNCHANGED <<wp, file>>
  ELSE \* read on a write-only file fails
       /\ ret' = [op |-> "fill", ok |-> FALSE, val |-> 0]
       /\ UNCHANGED <<wp, file, cursor, elems>>

\* empty(): write_all every piece in order, then clear
AllEmpty(ss) == \A i \in 1..Len(ss) : ss[i] = <<>>
Empty ==
  IF wp.mode = "w"
  THEN /\ file' = file \o Flatten(elems) /\ elems' = <<>>
       /\ ret' = [op |-> "empty", ok |-> TRUE, val |-> 0]
       /\ UNCHANGED <<wp, cursor>>
  ELSE IF AllEmpty(elems)
       THEN /\ elems' = <<>> /\ ret' = [op |-> "empty", ok |-> TRUE, val |-> 0]
            /\ UNCHANGED <<wp, file, cursor>>
       ELSE /\ ret' = [op |-> "empty", ok |-> FALSE, val |-> 0]
            /\ UNCHANGED <<wp, file, cursor, elems>>

Remove(k) ==
  IF k > Len(elems)
  THEN ret' = [op |-> "remove", ok |-> FALSE, val |-> k] /\ UNCHANGED <<wp, file, cursor, elems>>
  ELSE /\ elems' = SubSeqSafe(elems, k + 1, Len(elems))
       /\ ret' = [op |-> "remove", ok |-> TRUE, val |-> k]
       /\ UNCHANGED <<wp, file, cursor>>

Add(d) ==
  IF Len(elems) = wp.size
  THEN ret' = [op |-> "add", ok |-> FALSE, val |-> 0] /\ UNCHANGED <<wp, file, cursor, elems>>
  ELSE /\ elems' = Append(elems, d)
       /\ ret' = [op |-> "add", ok |-> TRUE, val |-> 0]
       /\ UNCHANGED <<wp, file, cursor>>

\* observers (checked after every operation by the trace spec)
ObsLen    == Len(elems)
ObsIsFull == Len(elems) = wp.size
ObsIsEmpty == elems = <<>>

-----------------------------------------------------------------------------
(* C18 invariants                                                           *)
C18_Bounded == Len(elems) <= wp.size

\* reader that only fills and removes: handed-out pieces are consecutive slices of the file,
\* all of chunk size except possibly the last one handed out, which then ends the file
C18_ReaderSlices ==
  (wp.mode = "r" /\ wp.pure) =>
     LET flat == Flatten(elems) IN
     /\ cursor <= Len(file)
     /\ Len(flat) <= cursor
     /\ flat = SubSeqSafe(file, cursor - Len(flat) + 1, cursor)          \* in order, no gap, no repetition
     /\ \A i \in 1..Len(elems) :      \* a short piece only at end of file; after it only empty ones
          Len(elems[i]) < wp.chunk =>
             (cursor = Len(file) /\ \A j \in (i + 1)..Len(elems) : elems[j] = <<>>)

\* a writer's file is only ever appended to
C18_AppendOnly == [][wp.mode = "w" =>
                      /\ Len(file') >= Len(file) /\ SubSeqSafe(file', 1, Len(file)) = file]_wvars
=============================================================================
