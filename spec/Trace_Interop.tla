---------------------------- MODULE Trace_Interop ----------------------------
(* The final state of one run of the real tftpc against the real tftpd (C14):   *)
(* byte-identical files at the documented path, or - when the server refused    *)
(* the request - no file created by the client and the error reported.          *)
EXTENDS Naturals, Sequences, TLC, Json, IOUtils
Rec == ndJsonDeserialize(IOEnv.TRACE)
N == Len(Rec)
VARIABLES l
E == Rec[l]
TraceInit == l = 1

FinalOK ==
  /\ ~E.timed_out
  /\ E.expect_refusal <=> E.refused
  /\ E.refused => /\ E.client_reported_error
                  /\ (E.dir = "download" => ~E.target_exists)     \* the client created no file
  /\ ~E.refused => /\ E.target_exists /\ E.same /\ E.strays = 0   \* stored under the basename, identical

TraceNext ==
  /\ l <= N
  /\ (E.e = "final" /\ ~FinalOK) => PrintT(<<"DEV", l, "C14:Final">>)
  /\ l' = l + 1
TraceSpec == TraceInit /\ [][TraceNext]_l
TraceAccepted == LET d == TLCGet("stats").diameter IN IF d - 1 = N THEN TRUE ELSE Print(<<"STUCK", d>>, FALSE)
=============================================================================
