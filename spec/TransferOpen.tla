---------------------------- MODULE TransferOpen ----------------------------
(***************************************************************************)
(* Transfer worker against an ADVERSARIAL peer: at every receive the peer  *)
(* (or the network, or the clock) may hand the worker any input from an    *)
(* alphabet chosen relative to the worker's current state.  Used for every *)
(* safety property of the worker and for generating replay scripts: the    *)
(* history variable `hist` (hidden from the state graph by VIEW) holds the *)
(* inputs that led to a state; PrintScript prints one script per explored  *)
(* input transition.                                                       *)
(***************************************************************************)
EXTENDS Transfer, Json

CONSTANTS Params,   \* set of parameter records: one initial state each
          MaxBase,  \* receiver / long files: explore while base <= MaxBase
          MaxHist   \* generate scripts of at most this many inputs

VARIABLES hist,     \* sequence of inputs so far (script)
          lastin    \* the last input (for action properties)

ovars == <<vars, hist, lastin>>

Dts == {0, 1, p.T}

\* ACK numbers offered to the sender, as offsets from the window base: around the base
\* (stale / duplicate), around the end of what is outstanding, around the nominal window
\* size, plus the absolute edge values.  For W <= 3 this is every number near the window.
AckOffsets == (-3 .. 3) \cup ((len - 2) .. (len + 1)) \cup ((p.W - 1) .. (p.W + 1))
AckNumbers == { (base + 1 + d) % p.M : d \in AckOffsets } \cup {0, p.M - 1}
\* DATA numbers offered to the receiver
DataNumbers == { (base + 1 + d) % p.M : d \in -2 .. 2 } \cup {0}

SenderInput ==
  IF pc = "check"
  THEN \/ lastin' = [k |-> "ack", n |-> 0, dt |-> 0] /\ CheckAck0
       \/ \E n \in {1, 2, p.M - 1} : lastin' = [k |-> "ack", n |-> n, dt |-> 0] /\ CheckAckNonZero
       \/ lastin' = [k |-> "err", n |-> 0, dt |-> 0] /\ CheckEnd
       \/ \E dt \in {0, p.T} : lastin' = [k |-> "fail", n |-> 0, dt |-> dt] /\ CheckEnd
       \/ lastin' = [k |-> "stray", n |-> 0, dt |-> 0] /\ CheckOther
  ELSE \/ \E n \in AckNumbers :
            IF InWindow(n)
            THEN lastin' = [k |-> "ack", n |-> n, dt |-> 0] /\ SendRecvAckInWindow(n)
            ELSE \E dt \in Dts : lastin' = [k |-> "ack", n |-> n, dt |-> dt] /\ SendRecvAckOutside(n, dt)
       \/ lastin' = [k |-> "err", n |-> 0, dt |-> 0] /\ RecvError
       \/ \E dt \in Dts :      \* timeout (dt = T) or an undecodable datagram before it
             lastin' = [k |-> "fail", n |-> 0, dt |-> dt] /\ SendRecvFail(dt)
       \/ \E dt \in {0, p.T} : \* decodable, but not ACK / ERROR
             lastin' = [k |-> "stray", n |-> 0, dt |-> dt] /\ SendRecvFail(dt)

ReceiverInput ==
  \/ \E n \in DataNumbers, sz \in {"full", "short", "empty", "over"} :
        /\ lastin' = [k |-> "data", n |-> n, dt |-> 0, sz |-> sz]
        /\ IF n = Wire(base + 1)
           THEN RecvDataInSeq(n, base + 1, sz)   \* id := the index it claims
           ELSE sz \in {"full", "short"} /\ RecvDataOutOfSeq(n)
  \/ /\ lastin' = [k |-> "err", n |-> 0, dt |-> 0, sz |-> ""]
     /\ RecvError
  \/ \E kind \in {"fail", "stray"} :
        /\ lastin' = [k |-> kind, n |-> 0, dt |-> 0, sz |-> ""]
        /\ RecvRecvFail

Input ==
  /\ pc \in {"check", "run"} /\ AtRecv
  /\ base <= MaxBase /\ Len(hist) < MaxHist
  /\ IF Sending THEN SenderInput ELSE ReceiverInput
  /\ hist' = Append(hist, lastin')

Internal == (Emit \/ Exit) /\ UNCHANGED <<hist, lastin>>

Init == \E pp \in Params : InitWith(pp) /\ hist = <<>> /\ lastin = [k |-> "none"]
Next == Input \/ Internal
Spec == Init /\ [][Next]_ovars

View == vars       \* hide hist / lastin: they multiply states without adding behaviour

\* one script per explored input transition (evaluated as an ACTION_CONSTRAINT)
PrintScript ==
  (hist' # hist) => PrintT(<<"SCRIPT", ToJson([cfg |-> p, steps |-> hist'])>>)

-----------------------------------------------------------------------------
(* Action properties                                                        *)

\* C08: a DATA burst is committed only by an in-window ACK (advance / gap) or when the
\* timeout has elapsed since the last transmission; never by a stale or duplicate ACK
C08_RetransmitOnlyOnTimeoutOrGap ==
  [][ (Sending /\ pc = "run" /\ out = None /\ out' # None /\ out'.k = "data") =>
        \/ (lastin'.k = "ack" /\ InWindow(lastin'.n))
        \/ el + lastin'.dt >= p.T ]_ovars

\* C08: acknowledgements are cumulative: after an in-window ACK transmission resumes at k+1
C08_ResumeAtKPlus1 ==
  [][ (Sending /\ pc = "run" /\ out = None /\ lastin'.k = "ack" /\ InWindow(lastin'.n) /\ pc' = "run") =>
        /\ Wire(base') = lastin'.n
        /\ out'.k = "data" /\ out'.next = base' + 1 ]_ovars

\* C08: an ACK outside the window changes nothing but the clock
C08_StaleAckInert ==
  [][ (Sending /\ pc = "run" /\ out = None /\ lastin'.k = "ack" /\ ~InWindow(lastin'.n)) =>
        /\ <<pc', base', len', eof', retry'>> = <<pc, base, len, eof, retry>>
        /\ (out' # None => el + lastin'.dt >= p.T) ]_ovars

\* C07: ERROR ends the transfer at once and nothing more is committed
C07_EndsOnError ==
  [][ (lastin'.k = "err" /\ hist' # hist) => pc' = "failed" /\ out' = None ]_ovars

\* C07: the 6th consecutive failed receive ends the transfer
C07_GivesUp ==
  [][ (pc = "run" /\ lastin'.k \in {"fail", "stray"} /\ hist' # hist /\ retry = MaxRetries - 1)
        => pc' = "failed" ]_ovars

\* C04: the retry budget is for CONSECUTIVE failed receives: a receive that delivers what the
\* role waits for (a DATA packet to the receiver, an ACK inside the window to the sender) starts
\* the count afresh, so only MaxRetries failures in a row can end a transfer
C04_BudgetIsForConsecutiveFailures ==
  [][ (pc = "run" /\ pc' = "run" /\ hist' # hist /\
        ((Receiving /\ lastin'.k = "data") \/ (Sending /\ lastin'.k = "ack" /\ InWindow(lastin'.n)))) => retry' = 0 ]_ovars

\* C02: the receiver acknowledges only what it has accepted in sequence and stored
C02_AckOnlyInSeq ==
  [][ (Receiving /\ out = None /\ out' # None) =>
        /\ out'.k = "ack" /\ out'.n = Wire(base') /\ CSLen(file') + ne' = base' ]_ovars

\* C13: a kept partial file always holds a prefix of what was accepted
C13_KeptIsPrefix == Receiving => CSLen(file) + ne <= base + (IF pc \in {"failed","exited"} THEN 1 ELSE 0)

=============================================================================
