----------------------------- MODULE Trace_Codec -----------------------------
(* Judges recorded results of the real Packet::deserialize / serialize and the *)
(* Opcode / ErrorCode conversions against Codec.tla: TLC evaluates Decode and  *)
(* Encode on the recorded bytes / packets and compares.  One event per vector. *)
EXTENDS Codec, Json, IOUtils

Rec == ndJsonDeserialize(IOEnv.TRACE)
N == Len(Rec)
VARIABLES l
E == Rec[l]

TraceInit == l = 1

DecOK ==     \* C10: same verdict, same packet
  E.res = Decode(E.b)
ReencOK ==   \* C10 stability + C11 layout of the re-encoding
  Decode(E.b) # Err => (E.reenc = Encode(Decode(E.b)) /\ E.redec = E.res)
EncOK ==     \* C11: RFC layout, and decoding it returns the identical packet
  /\ E.bytes = Encode(E.p) /\ E.p2 = E.p /\ Decode(E.bytes) = E.p

Verdict ==
  CASE E.e = "dec" -> IF ~DecOK THEN "C10:Decode" ELSE IF ~ReencOK THEN "C10,C11:Reencode" ELSE "ok"
    [] E.e = "enc" -> IF EncOK THEN "ok" ELSE "C11:Encode"
    [] E.e = "op"  -> IF E.panic THEN "C10,C11:OpcodePanic"
                      ELSE IF E.ok = OpcodeOK(E.n) /\ (E.ok => E.bytes = BE16(E.n)) THEN "ok" ELSE "C11:Opcode"
    [] E.e = "ec"  -> IF E.panic THEN "C10,C11:ErrorCodePanic"
                      ELSE IF E.ok = ErrCodeOK(E.n) /\ (E.ok => E.bytes = BE16(E.n)) THEN "ok" ELSE "C11:ErrorCode"
    [] OTHER -> "ok"

TraceNext ==
  /\ l <= N
  /\ LET v == Verdict IN (v # "ok") => PrintT(<<"DEV", l, v>>)
  /\ l' = l + 1
TraceSpec == TraceInit /\ [][TraceNext]_l
TraceAccepted ==
  LET d == TLCGet("stats").diameter IN
  IF d - 1 = N THEN TRUE ELSE Print(<<"STUCK", d>>, FALSE)
=============================================================================
