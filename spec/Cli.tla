-------------------------------- MODULE Cli --------------------------------
(***************************************************************************)
(* Command-line parsing of tftpd (Config::new, src/config.rs) and tftpc    *)
(* (ClientConfig::new, src/client_config.rs).                              *)
(*                                                                         *)
(* Two definitions of the same function over argument vectors:             *)
(*   Fold  - one step per token consumed, shaped like the code's           *)
(*           `while let Some(arg) = args.next()` loop;                     *)
(*   Decl  - the documented meaning: pair tokens into items; error iff     *)
(*           some item is invalid; otherwise every setting is the value of *)
(*           the LAST item for it, else its default; receive / send        *)
(*           directory fall back to -d exactly when they have no item.     *)
(* TLC checks Fold = Decl on every enumerated vector (C17); the harness    *)
(* checks the real parsers against Fold.  `-h` is excluded (it exits).     *)
(* Tokens are strings; what a token means as a value (address, port,       *)
(* existing directory, u8 ...) is given by tables over the token universe. *)
(***************************************************************************)
EXTENDS Naturals, Sequences, TLC

\* ---- meaning of tokens as values ----
IsIp(t)   == t \in {"0.0.0.0", "127.0.0.1", "::1"}
U16Tok    == {"0", "1", "2", "3", "69", "254", "255", "256", "257", "300", "1000", "65535"}
IsU16(t)  == t \in U16Tok
IsU8(t)   == t \in {"0", "1", "2", "3", "69", "254", "255"}
IsDir(t)  == t \in {"D1", "D2", "/"}          \* directories that exist where the harness runs
IsNum(t)  == t \in U16Tok \cup {"65536", "70000"}   \* usize / u64 (client blocksize, timeout)

\* ---- server ----------------------------------------------------------------
SFlagsVal  == {"-i", "--ip-address", "-p", "--port", "-d", "--directory", "-rd", "--receive-directory",
               "-sd", "--send-directory", "--duplicate-packets"}
SFlagsBool == {"-s", "--single-port", "-r", "--read-only", "--overwrite", "--keep-on-error"}

SDefault == [err |-> FALSE, ip |-> "127.0.0.1", port |-> "69", dir |-> "CWD", rd |-> "", sd |-> "",
             single |-> FALSE, ro |-> FALSE, dup |-> "0", ow |-> FALSE, clean |-> TRUE]
SErr == [err |-> TRUE]

\* setting a flag denotes, and whether a value is acceptable for it
SKey(f) == CASE f \in {"-i", "--ip-address"} -> "ip" [] f \in {"-p", "--port"} -> "port"
             [] f \in {"-d", "--directory"} -> "dir" [] f \in {"-rd", "--receive-directory"} -> "rd"
             [] f \in {"-sd", "--send-directory"} -> "sd" [] f = "--duplicate-packets" -> "dup"
             [] f \in {"-s", "--single-port"} -> "single" [] f \in {"-r", "--read-only"} -> "ro"
             [] f = "--overwrite" -> "ow" [] f = "--keep-on-error" -> "clean"
SValOK(key, v) == CASE key = "ip" -> IsIp(v) [] key = "port" -> IsU16(v)
                    [] key \in {"dir", "rd", "sd"} -> IsDir(v)
                    [] key = "dup" -> IsU8(v) /\ v # "255"

SFinish(c) == IF c.err THEN SErr
              ELSE [c EXCEPT !.rd = IF c.rd = "" THEN c.dir ELSE c.rd,
                             !.sd = IF c.sd = "" THEN c.dir ELSE c.sd]

\* Fold: the loop.  args[1] is the program name and is skipped.
RECURSIVE SLoop(_, _, _)
SLoop(args, i, c) ==
  IF i > Len(args) THEN c
  ELSE LET a == args[i] IN
       IF a \in SFlagsVal
       THEN IF i + 1 > Len(args) THEN SErr                     \* flag missing its value
            ELSE LET k == SKey(a) v == args[i + 1] IN
                 IF ~SValOK(k, v) THEN SErr
                 ELSE SLoop(args, i + 2, [c EXCEPT ![k] = v])
       ELSE IF a \in SFlagsBool
       THEN LET k == SKey(a) IN SLoop(args, i + 1, [c EXCEPT ![k] = (k # "clean")])
       ELSE SErr                                                \* unknown flag
SFold(args) == SFinish(SLoop(args, 2, SDefault))

\* Decl: items, validity, last occurrence.
RECURSIVE SItems(_, _)
SItems(args, i) ==     \* sequence of [f, v, bad]
  IF i > Len(args) THEN <<>>
  ELSE LET a == args[i] IN
       IF a \in SFlagsVal
       THEN IF i + 1 > Len(args) THEN <<[k |-> "?", v |-> "", bad |-> TRUE, w |-> 1]>>
            ELSE <<[k |-> SKey(a), v |-> args[i + 1], bad |-> ~SValOK(SKey(a), args[i + 1]), w |-> 2]>> \o SItems(args, i + 2)
       ELSE IF a \in SFlagsBool THEN <<[k |-> SKey(a), v |-> "", bad |-> FALSE, w |-> 1]>> \o SItems(args, i + 1)
       ELSE <<[k |-> "?", v |-> "", bad |-> TRUE, w |-> 1]>> \o SItems(args, i + 1)

LastOf(items, key) ==   \* index of the last item for `key`, 0 if none
  LET S == {j \in 1..Len(items) : items[j].k = key} IN
  IF S = {} THEN 0 ELSE CHOOSE j \in S : \A m \in S : m <= j

SDecl(args) ==
  LET items == SItems(args, 2) IN
  IF \E j \in 1..Len(items) : items[j].bad THEN SErr
  ELSE LET val(key, dflt) == IF LastOf(items, key) = 0 THEN dflt ELSE items[LastOf(items, key)].v
           has(key) == LastOf(items, key) # 0
           dir == val("dir", "CWD") IN
       [err |-> FALSE, ip |-> val("ip", "127.0.0.1"), port |-> val("port", "69"), dir |-> dir,
        rd |-> IF has("rd") THEN val("rd", "") ELSE dir, sd |-> IF has("sd") THEN val("sd", "") ELSE dir,
        single |-> has("single"), ro |-> has("ro"), dup |-> val("dup", "0"), ow |-> has("ow"),
        clean |-> ~has("clean")]

\* ---- client ------------------------------------------------------------------
CFlagsVal  == {"-i", "--ip-address", "-p", "--port", "-b", "--blocksize", "-w", "--windowsize",
               "-t", "--timeout", "-rd", "--receive-directory"}
CFlagsBool == {"-u", "--upload", "-d", "--download", "--keep-on-error"}
CDefault == [err |-> FALSE, ip |-> "127.0.0.1", port |-> "69", blk |-> "512", win |-> "1", tmo |-> "5",
             mode |-> "download", rd |-> "", file |-> "", clean |-> TRUE]
CKey(f) == CASE f \in {"-i", "--ip-address"} -> "ip" [] f \in {"-p", "--port"} -> "port"
             [] f \in {"-b", "--blocksize"} -> "blk" [] f \in {"-w", "--windowsize"} -> "win"
             [] f \in {"-t", "--timeout"} -> "tmo" [] f \in {"-rd", "--receive-directory"} -> "rd"
CValOK(key, v) == CASE key = "ip" -> IsIp(v) [] key \in {"port", "win"} -> IsU16(v)
                    [] key \in {"blk", "tmo"} -> IsNum(v) [] key = "rd" -> IsDir(v)

\* convert_file_path on the file-name tokens of the universe
ConvFile(t) == CASE t = "/f" -> "f" [] t = "a\\b" -> "a/b" [] OTHER -> t

\* Fold: note that the client does NOT skip the program name: every token that is not a
\* flag (or a flag's value) is the file name, and the last one wins.
RECURSIVE CLoop(_, _, _)
CLoop(args, i, c) ==
  IF i > Len(args) THEN c
  ELSE LET a == args[i] IN
       IF a \in CFlagsVal
       THEN IF i + 1 > Len(args) THEN SErr
            ELSE LET k == CKey(a) v == args[i + 1] IN
                 IF ~CValOK(k, v) THEN SErr ELSE CLoop(args, i + 2, [c EXCEPT ![k] = v])
       ELSE IF a \in {"-u", "--upload"} THEN CLoop(args, i + 1, [c EXCEPT !.mode = "upload"])
       ELSE IF a \in {"-d", "--download"} THEN CLoop(args, i + 1, [c EXCEPT !.mode = "download"])
       ELSE IF a = "--keep-on-error" THEN CLoop(args, i + 1, [c EXCEPT !.clean = FALSE])
       ELSE CLoop(args, i + 1, [c EXCEPT !.file = ConvFile(a)])
CFold(args) == CLoop(args, 1, CDefault)

RECURSIVE CItems(_, _)
CItems(args, i) ==
  IF i > Len(args) THEN <<>>
  ELSE LET a == args[i] IN
       IF a \in CFlagsVal
       THEN IF i + 1 > Len(args) THEN <<[k |-> "?", v |-> "", bad |-> TRUE, w |-> 1]>>
            ELSE <<[k |-> CKey(a), v |-> args[i + 1], bad |-> ~CValOK(CKey(a), args[i + 1]), w |-> 2]>> \o CItems(args, i + 2)
       ELSE IF a \in {"-u", "--upload"} THEN <<[k |-> "mode", v |-> "upload", bad |-> FALSE, w |-> 1]>> \o CItems(args, i + 1)
       ELSE IF a \in {"-d", "--download"} THEN <<[k |-> "mode", v |-> "download", bad |-> FALSE, w |-> 1]>> \o CItems(args, i + 1)
       ELSE IF a = "--keep-on-error" THEN <<[k |-> "clean", v |-> "", bad |-> FALSE, w |-> 1]>> \o CItems(args, i + 1)
       ELSE <<[k |-> "file", v |-> ConvFile(a), bad |-> FALSE, w |-> 1]>> \o CItems(args, i + 1)

CDecl(args) ==
  LET items == CItems(args, 1) IN
  IF \E j \in 1..Len(items) : items[j].bad THEN SErr
  ELSE LET val(key, dflt) == IF LastOf(items, key) = 0 THEN dflt ELSE items[LastOf(items, key)].v IN
       [err |-> FALSE, ip |-> val("ip", "127.0.0.1"), port |-> val("port", "69"), blk |-> val("blk", "512"),
        win |-> val("win", "1"), tmo |-> val("tmo", "5"), mode |-> val("mode", "download"),
        rd |-> val("rd", ""), file |-> val("file", ""), clean |-> LastOf(items, "clean") = 0]
=============================================================================
