SPECIFICATION Spec
CONSTANTS
  Mode = "deep"
  L = 6
ACTION_CONSTRAINT PrintVector
CHECK_DEADLOCK FALSE
INVARIANTS C10_Stable C11_RoundTrip C11_U16
