SPECIFICATION TraceSpec
POSTCONDITION TraceAccepted
CHECK_DEADLOCK FALSE
CONSTANTS
  Endpoints = {"c1", "c2", "x"}
  Names = {"f", "g"}
  SinglePort = FALSE
  ReadOnly = FALSE
  Overwrite = TRUE
  Clean = TRUE
  AsCoded = FALSE
  MaxWorkers = 8
  NB = 2
INVARIANTS C13_CompletedUploadSurvives
