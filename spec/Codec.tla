------------------------------- MODULE Codec -------------------------------
(***************************************************************************)
(* The TFTP wire format as rs-tftpd promises it (src/packet.rs,            *)
(* src/convert.rs), transcribed from RFC 1350 / 2347 / 2348 / 2349 / 7440  *)
(* and from the decoder's documented behaviour.  Pure functions:           *)
(*    Decode : byte sequences -> packets \cup {Err}                        *)
(*    Encode : packets -> byte sequences                                   *)
(* Bytes are naturals 0..255.  Option values are kept as NORMALISED DIGIT  *)
(* SEQUENCES (TLC integers are 32-bit; the code parses into a 64-bit       *)
(* usize): no sign, no leading zeros, <<0>> for zero.                      *)
(***************************************************************************)
EXTENDS Naturals, Sequences, TLC

Err == [t |-> "err"]

Sub(s, a, b) == IF a > b THEN <<>> ELSE SubSeq(s, a, b)

\* ---- ASCII helpers -------------------------------------------------------
Chr == [c \in {"b","l","k","s","i","z","e","t","m","o","u","w","n","d"} |->
         CASE c = "b" -> 98 [] c = "l" -> 108 [] c = "k" -> 107 [] c = "s" -> 115 [] c = "i" -> 105
           [] c = "z" -> 122 [] c = "e" -> 101 [] c = "t" -> 116 [] c = "m" -> 109 [] c = "o" -> 111
           [] c = "u" -> 117 [] c = "w" -> 119 [] c = "n" -> 110 [] c = "d" -> 100]
BLKSIZE    == <<98, 108, 107, 115, 105, 122, 101>>
TSIZE      == <<116, 115, 105, 122, 101>>
TIMEOUT    == <<116, 105, 109, 101, 111, 117, 116>>
WINDOWSIZE == <<119, 105, 110, 100, 111, 119, 115, 105, 122, 101>>
NOMESSAGE  == <<40, 110, 111, 32, 109, 101, 115, 115, 97, 103, 101, 41>>   \* "(no message)"

OptName(o) == CASE o = "blksize" -> BLKSIZE [] o = "tsize" -> TSIZE
                [] o = "timeout" -> TIMEOUT [] o = "windowsize" -> WINDOWSIZE

Lower(c) == IF c >= 65 /\ c <= 90 THEN c + 32 ELSE c
LowerSeq(s) == [i \in 1..Len(s) |-> Lower(s[i])]

\* the recognised option an (arbitrary-case ASCII) name denotes, or "none"
OptOf(name) ==
  LET n == LowerSeq(name) IN
  CASE n = BLKSIZE -> "blksize" [] n = TSIZE -> "tsize" [] n = TIMEOUT -> "timeout"
    [] n = WINDOWSIZE -> "windowsize" [] OTHER -> "none"

\* ---- UTF-8 well-formedness (RFC 3629), as String::from_utf8 decides it ----
Cont(c) == c >= 128 /\ c <= 191
RECURSIVE Utf8From(_, _)
Utf8From(s, i) ==
  IF i > Len(s) THEN TRUE
  ELSE LET c == s[i]
           has(k) == i + k <= Len(s) IN
       IF c <= 127 THEN Utf8From(s, i + 1)
       ELSE IF c >= 194 /\ c <= 223 THEN has(1) /\ Cont(s[i+1]) /\ Utf8From(s, i + 2)
       ELSE IF c = 224 THEN has(2) /\ s[i+1] >= 160 /\ s[i+1] <= 191 /\ Cont(s[i+2]) /\ Utf8From(s, i + 3)
       ELSE IF (c >= 225 /\ c <= 236) \/ c = 238 \/ c = 239
            THEN has(2) /\ Cont(s[i+1]) /\ Cont(s[i+2]) /\ Utf8From(s, i + 3)
       ELSE IF c = 237 THEN has(2) /\ s[i+1] >= 128 /\ s[i+1] <= 159 /\ Cont(s[i+2]) /\ Utf8From(s, i + 3)
       ELSE IF c = 240 THEN has(3) /\ s[i+1] >= 144 /\ s[i+1] <= 191 /\ Cont(s[i+2]) /\ Cont(s[i+3]) /\ Utf8From(s, i + 4)
       ELSE IF c >= 241 /\ c <= 243 THEN has(3) /\ Cont(s[i+1]) /\ Cont(s[i+2]) /\ Cont(s[i+3]) /\ Utf8From(s, i + 4)
       ELSE IF c = 244 THEN has(3) /\ s[i+1] >= 128 /\ s[i+1] <= 143 /\ Cont(s[i+2]) /\ Cont(s[i+3]) /\ Utf8From(s, i + 4)
       ELSE FALSE
Utf8OK(s) == Utf8From(s, 1)

\* ---- decimal option values: usize::from_str ---------------------------------
\* optional '+', at least one digit, digits only, value <= 2^64 - 1
IsDigit(c) == c >= 48 /\ c <= 57
MAXU64 == <<1,8,4,4,6,7,4,4,0,7,3,7,0,9,5,5,1,6,1,5>>
RECURSIVE StripZeros(_)
StripZeros(d) == IF Len(d) > 1 /\ d[1] = 0 THEN StripZeros(Tail(d)) ELSE d
RECURSIVE LexLeq(_, _)
LexLeq(a, b) == IF a = <<>> THEN TRUE
                ELSE IF a[1] < b[1] THEN TRUE ELSE IF a[1] > b[1] THEN FALSE ELSE LexLeq(Tail(a), Tail(b))
FitsU64(d) == Len(d) < 20 \/ (Len(d) = 20 /\ LexLeq(d, MAXU64))
\* bytes -> normalised digit sequence, or <<>> if the text is not a valid usize
ParseValue(s) ==
  LET body == IF Len(s) >= 1 /\ s[1] = 43 THEN Tail(s) ELSE s IN
  IF body = <<>> \/ \E i \in 1..Len(body) : ~IsDigit(body[i]) THEN <<>>
  ELSE LET d == StripZeros([i \in 1..Len(body) |-> body[i] - 48]) IN
       IF FitsU64(d) THEN d ELSE <<>>
ValueBytes(d) == [i \in 1..Len(d) |-> d[i] + 48]

\* ---- NUL-terminated strings: Convert::to_string(buf, start) -----------------
\* start is a 0-based offset.  Result: [ok, s, z] with z the 0-based index of the NUL.
RECURSIVE FindZero(_, _)
FindZero(b, i) == IF i > Len(b) THEN 0 ELSE IF b[i] = 0 THEN i ELSE FindZero(b, i + 1)
CString(b, start) ==
  LET zi == FindZero(b, start + 1) IN       \* 1-based position of the first NUL at or after start
  IF zi = 0 THEN [ok |-> FALSE, s |-> <<>>, z |-> 0]
  ELSE LET s == Sub(b, start + 1, zi - 1) IN
       IF Utf8OK(s) THEN [ok |-> TRUE, s |-> s, z |-> zi - 1] ELSE [ok |-> FALSE, s |-> <<>>, z |-> 0]

\* ---- option lists (requests and OACK): `while zero_index < buf.len() - 1` ----
\* returns [ok, opts]
RECURSIVE ParseOpts(_, _, _)
ParseOpts(b, z, acc) ==
  IF ~(z < Len(b) - 1) THEN [ok |-> TRUE, opts |-> acc]
  ELSE LET name == CString(b, z + 1) IN
       IF ~name.ok THEN [ok |-> FALSE, opts |-> <<>>]
       ELSE LET val == CString(b, name.z + 1) IN
            IF ~val.ok THEN [ok |-> FALSE, opts |-> <<>>]
            ELSE LET o == OptOf(name.s) IN
                 IF o = "none" THEN ParseOpts(b, val.z, acc)          \* unknown option: skipped
                 ELSE LET d == ParseValue(val.s) IN
                      IF d = <<>> THEN [ok |-> FALSE, opts |-> <<>>]  \* non-numeric value
                      ELSE ParseOpts(b, val.z, Append(acc, [o |-> o, v |-> d]))

U16(b, i) == b[i] * 256 + b[i + 1]      \* big-endian, 1-based position

DecodeRq(b, t) ==
  LET fn == CString(b, 2) IN
  IF ~fn.ok THEN Err
  ELSE LET mode == CString(b, fn.z + 1) IN
       IF ~mode.ok THEN Err
       ELSE LET os == ParseOpts(b, mode.z, <<>>) IN
            IF ~os.ok THEN Err
            ELSE [t |-> t, fn |-> fn.s, mode |-> mode.s, opts |-> os.opts]

Decode(b) ==
  IF Len(b) < 2 THEN Err
  ELSE LET op == U16(b, 1) IN
       CASE op = 1 -> DecodeRq(b, "rrq")
         [] op = 2 -> DecodeRq(b, "wrq")
         [] op = 3 -> IF Len(b) < 4 THEN Err ELSE [t |-> "data", n |-> U16(b, 3), d |-> Sub(b, 5, Len(b))]
         [] op = 4 -> IF Len(b) < 4 THEN Err ELSE [t |-> "ack", n |-> U16(b, 3)]
         [] op = 5 -> IF Len(b) < 4 THEN Err
                      ELSE IF U16(b, 3) > 7 THEN Err
                      ELSE LET m == CString(b, 4) IN
                           [t |-> "error", code |-> U16(b, 3), msg |-> IF m.ok THEN m.s ELSE NOMESSAGE]
         [] op = 6 -> LET os == ParseOpts(b, 1, <<>>) IN
                      IF os.ok THEN [t |-> "oack", opts |-> os.opts] ELSE Err
         [] OTHER -> Err

\* ---- encoder: the RFC layout ---------------------------------------------
BE16(n) == <<n \div 256, n % 256>>
RECURSIVE EncOpts(_)
EncOpts(os) == IF os = <<>> THEN <<>>
               ELSE OptName(os[1].o) \o <<0>> \o ValueBytes(os[1].v) \o <<0>> \o EncOpts(Tail(os))
Encode(p) ==
  CASE p.t = "rrq"   -> <<0, 1>> \o p.fn \o <<0>> \o p.mode \o <<0>> \o EncOpts(p.opts)
    [] p.t = "wrq"   -> <<0, 2>> \o p.fn \o <<0>> \o p.mode \o <<0>> \o EncOpts(p.opts)
    [] p.t = "data"  -> <<0, 3>> \o BE16(p.n) \o p.d
    [] p.t = "ack"   -> <<0, 4>> \o BE16(p.n)
    [] p.t = "error" -> <<0, 5>> \o BE16(p.code) \o p.msg \o <<0>>
    [] p.t = "oack"  -> <<0, 6>> \o EncOpts(p.opts)

\* ---- the laws (C10, C11) ----------------------------------------------------
\* whatever is accepted is stable under re-encoding
Stable(b) == LET p == Decode(b) IN p # Err => Decode(Encode(p)) = p
\* every packet value survives the round trip
RoundTrip(p) == Decode(Encode(p)) = p
OpcodeOK(n) == n \in 1..6
ErrCodeOK(n) == n \in 0..7
=============================================================================
