SPECIFICATION TraceSpec
POSTCONDITION TraceAccepted
CHECK_DEADLOCK FALSE
INVARIANTS C18_Bounded
