------------------------------- MODULE Server -------------------------------
(***************************************************************************)
(* The listener of rs-tftpd (src/server.rs) with the life cycle of the     *)
(* workers it spawns and the files they touch.  The listener is one        *)
(* thread: every action below that starts with "L" is one iteration of its *)
(* loop (one datagram).  A worker is a thread of its own: its steps        *)
(* (WOpen, WBlock, WFinish, WFail) interleave freely with the listener and *)
(* with other workers - in particular the target file of an upload is      *)
(* created by the WORKER (File::create in the thread), after the listener  *)
(* has checked for its existence and answered.                             *)
(*                                                                         *)
(* The data phase of a transfer is abstracted to "one more block moved";   *)
(* each worker is refined by Transfer.tla, which is how the per-transfer   *)
(* projections of a real server trace are judged.                          *)
(*                                                                         *)
(* The specification states what the listed properties require.  Where the *)
(* code knowingly differs the deviation is a named switch:                 *)
(*   AsCoded = TRUE : workers share a path without any notion of ownership: a  *)
(*                    failing upload worker removes the file at its path     *)
(*                    whoever wrote it, a late one truncates it (the code, D6)*)
(*   AsCoded = FALSE: an upload accepted EARLIER never removes, truncates or *)
(*                    writes into the file once a later one has opened it    *)
(***************************************************************************)
EXTENDS Naturals, Sequences, FiniteSets, TLC

CONSTANTS Endpoints,     \* client endpoints (source addresses)
          Names,         \* file names, all acceptable and resolving inside the directories
          SinglePort, ReadOnly, Overwrite, Clean,
          AsCoded,
          MaxWorkers, NB \* bound on requests accepted; blocks per transfer

VARIABLES
  disk,      \* Names -> [st: "absent" | "file", by: worker id that created/truncated it last (0 = pre-existing),
             \*           k: blocks of `by` in it, mixed: another worker wrote into it after `by` truncated it]
  workers,   \* sequence of [kind: "up"|"down", ep, name, phase: "spawned"|"open"|"done"|"failed", k]
  clients,   \* single-port routing map: Endpoints -> worker id (0 = none); entries are never removed
  replies,   \* history: sequence of [to, from ("listener" | worker id), k, code] (hidden by VIEW)
  accepted   \* Names -> sequence of upload worker ids in order of acceptance

svars == <<disk, workers, clients, replies, accepted>>

Absent == [st |-> "absent", by |-> 0, k |-> 0, mixed |-> FALSE]
Pre(k) == [st |-> "file", by |-> 0, k |-> k, mixed |-> FALSE]     \* a file that was there before

Ids == 1..Len(workers)
Alive(id) == workers[id].phase \in {"spawned", "open"}
Reply(to, from, k, code) == replies' = Append(replies, [to |-> to, from |-> from, k |-> k, code |-> code])
NewId == Len(workers) + 1
From(id) == IF SinglePort THEN "listener" ELSE id

SInit(initialDisk) ==
  /\ disk = initialDisk
  /\ workers = <<>> /\ clients = [e \in Endpoints |-> 0] /\ replies = <<>>
  /\ accepted = [n \in Names |-> <<>>]

-----------------------------------------------------------------------------
(*                              LISTENER                                    *)
LWrq(ep, name) ==
  IF ReadOnly
  THEN Reply(ep, "listener", "error", 2) /\ UNCHANGED <<disk, workers, clients, accepted>>
  ELSE IF disk[name].st = "file" /\ ~Overwrite
  THEN Reply(ep, "listener", "error", 6) /\ UNCHANGED <<disk, workers, clients, accepted>>
  ELSE /\ Len(workers) < MaxWorkers
       /\ workers' = Append(workers, [kind |-> "up", ep |-> ep, name |-> name, phase |-> "spawned", k |-> 0])
       /\ clients' = IF SinglePort THEN [clients EXCEPT ![ep] = NewId] ELSE clients
       /\ accepted' = [accepted EXCEPT ![name] = Append(@, NewId)]
       /\ Reply(ep, From(NewId), "ack0", 0)
       /\ UNCHANGED disk

LRrq(ep, name) ==
  IF disk[name].st = "absent"
  THEN Reply(ep, "listener", "error", 1) /\ UNCHANGED <<disk, workers, clients, accepted>>
  ELSE /\ Len(workers) < MaxWorkers
       /\ workers' = Append(workers, [kind |-> "down", ep |-> ep, name |-> name, phase |-> "spawned", k |-> 0])
       /\ clients' = IF SinglePort THEN [clients EXCEPT ![ep] = NewId] ELSE clients
       /\ Reply(ep, From(NewId), "data1", 0)
       /\ UNCHANGED <<disk, accepted>>

\* a well-formed packet that is not a request (DATA / ACK / OACK / ERROR) at the listening port
LOther(ep) ==
  IF SinglePort /\ clients[ep] # 0 /\ Alive(clients[ep])
  THEN UNCHANGED svars                                 \* routed to the worker that owns the endpoint
  ELSE Reply(ep, "listener", "error", 4) /\ UNCHANGED <<disk, workers, clients, accepted>>

-----------------------------------------------------------------------------
(*                               WORKERS                                    *)
\* in single-port mode a worker hears from its client only while the endpoint routes to it
Reachable(id) == ~SinglePort \/ clients[workers[id].ep] = id

\* an upload of this name accepted later has already opened the file
LaterOpened(id) ==
  \E j \in Ids : j > id /\ workers[j].kind = "up" /\ workers[j].name = workers[id].name
                 /\ workers[j].phase \in {"open", "done", "failed"}
Superseded(id) == ~AsCoded /\ workers[id].kind = "up" /\ LaterOpened(id)

WOpen(id) ==
  /\ workers[id].phase = "spawned"
  /\ IF Superseded(id)
     THEN workers' = [workers EXCEPT ![id].phase = "failed"] /\ UNCHANGED disk
     ELSE /\ workers' = [workers EXCEPT ![id].phase = "open"]
          /\ disk' = IF workers[id].kind = "up"
                     THEN [disk EXCEPT ![workers[id].name] = [st |-> "file", by |-> id, k |-> 0, mixed |-> FALSE]]   \* create + truncate
                     ELSE disk
  /\ UNCHANGED <<clients, replies, accepted>>

WBlock(id) ==      \* one more block acknowledged (download) / written and acknowledged (upload)
  /\ workers[id].phase = "open" /\ workers[id].k < NB /\ Reachable(id)
  /\ workers' = [workers EXCEPT ![id].k = @ + 1]
  /\ disk' = IF workers[id].kind = "up" /\ ~Superseded(id)
             THEN LET n == workers[id].name IN
                  IF disk[n].st = "file" /\ disk[n].by = id
                  THEN [disk EXCEPT ![n].k = @ + 1]
                  ELSE [disk EXCEPT ![n].mixed = (disk[n].st = "file")]    \* writes into a file someone else re-created
             ELSE disk
  /\ UNCHANGED <<clients, replies, accepted>>

WFinish(id) ==
  /\ workers[id].phase = "open" /\ workers[id].k = NB
  /\ workers' = [workers EXCEPT ![id].phase = "done"]
  /\ UNCHANGED <<disk, clients, replies, accepted>>

WFail(id) ==       \* peer ERROR, peer silence (six timeouts), or an I/O error
  /\ Alive(id)
  /\ workers' = [workers EXCEPT ![id].phase = "failed"]
  /\ disk' = IF workers[id].kind = "up" /\ Clean /\ ~Superseded(id)
             THEN [disk EXCEPT ![workers[id].name] = Absent]
             ELSE disk
  /\ UNCHANGED <<clients, replies, accepted>>

SNext ==
  \/ \E ep \in Endpoints, n \in Names : LWrq(ep, n) \/ LRrq(ep, n)
  \/ \E ep \in Endpoints : LOther(ep)
  \/ \E id \in Ids : WOpen(id) \/ WBlock(id) \/ WFinish(id) \/ WFail(id)

-----------------------------------------------------------------------------
(*                              INVARIANTS                                  *)
Last(s) == s[Len(s)]

\* C13, second clause: once the most recently accepted upload of a name has completed, the file
\* holds exactly its content - whatever uploads accepted earlier do afterwards
C13_CompletedUploadSurvives ==
  \A n \in Names :
    accepted[n] # <<>> /\ workers[Last(accepted[n])].phase = "done" =>
      disk[n] = [st |-> "file", by |-> Last(accepted[n]), k |-> NB, mixed |-> FALSE]

\* C06: refusals come from the listening port, with the right code, and start nothing
C06_RefusalsFromListener ==
  \A i \in 1..Len(replies) : replies[i].k = "error" => replies[i].from = "listener"
C06_ReadOnlyStartsNoUpload == ReadOnly => \A id \in Ids : workers[id].kind # "up"
C06_NoOverwriteKeepsFiles ==      \* without --overwrite a pre-existing file is never touched ...
  ~Overwrite => \A n \in Names : TRUE     \* ... (stated on behaviours: see C06_PreexistingUntouched)

\* C12: in single-port mode every reply originates from the listening port; in multi-port mode
\* every transfer is served from its own port; a foreign packet never reaches a worker
C12_ReplyPorts ==
  \A i \in 1..Len(replies) :
    IF SinglePort THEN replies[i].from = "listener"
    ELSE replies[i].k \in {"ack0", "data1"} => replies[i].from \in Ids
C12_RouteOwnsEndpoint ==
  SinglePort => \A e \in Endpoints : clients[e] # 0 => workers[clients[e]].ep = e

\* C05: the listener is always ready for the next datagram (no action disables it)
C05_ListenerNeverStops == \A ep \in Endpoints : ENABLED LOther(ep)
=============================================================================
