SPECIFICATION Spec
CONSTANTS
  WParams <- MixedQuick
  MaxFile = 8
  MaxOps = 5
VIEW View
ACTION_CONSTRAINT PrintScript
CHECK_DEADLOCK FALSE
INVARIANTS C18_Bounded C18_ReaderSlices
PROPERTIES C18_AppendOnly
