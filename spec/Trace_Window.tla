---------------------------- MODULE Trace_Window ----------------------------
(* Judges recorded operation sequences of the real tftpd::Window against     *)
(* Window.tla: after every operation the return value, the queued pieces,    *)
(* the observers and the bytes of the file must be the specification's.      *)
EXTENDS Window, Json, IOUtils

Rec == ndJsonDeserialize(IOEnv.TRACE)
N == Len(Rec)
VARIABLES l, dev
tvars == <<wvars, l, dev>>
E == Rec[l]

Idle == [mode |-> "r", size |-> 0, chunk |-> 1, flen |-> 0, pure |-> TRUE]
TraceInit == l = 1 /\ dev = TRUE /\ WInitWith(Idle)

TCfg ==
  /\ l <= N /\ E.e = "cfg"
  /\ LET pp == [mode |-> E.mode, size |-> E.size, chunk |-> E.chunk, flen |-> E.flen, pure |-> E.pure] IN
     /\ wp' = pp /\ file' = E.file0 /\ cursor' = 0 /\ elems' = <<>>
     /\ ret' = [op |-> "new", ok |-> TRUE, val |-> 0]
  /\ dev' = FALSE /\ l' = l + 1

\* the recorded result and projection agree with the state the action produces
Agrees ==
  /\ ~E.panic                       \* a panic is never the specified result
  /\ E.ok = ret'.ok
  /\ (ret'.ok /\ E.op \in {"fill"}) => E.val = ret'.val
  /\ E.elems = elems'
  /\ E.len = Len(elems') /\ E.full = (Len(elems') = wp.size) /\ E.empty = (elems' = <<>>)
  /\ E.file = file'

TOp ==
  /\ l <= N /\ ~dev /\ E.e = "op"
  /\ CASE E.op = "fill" -> Fill
       [] E.op = "empty" -> Empty
       [] E.op = "remove" -> Remove(E.k)
       [] E.op = "add" -> Add(E.d)
  /\ Agrees
  /\ UNCHANGED dev /\ l' = l + 1

Deviate ==
  /\ l <= N /\ ~dev /\ E.e = "op"
  /\ ~ ENABLED TOp
  /\ PrintT(<<"DEV", l, "C18:" \o E.op>>)
  /\ dev' = TRUE /\ UNCHANGED wvars /\ l' = l + 1

Skip == l <= N /\ dev /\ E.e # "cfg" /\ UNCHANGED <<wvars, dev>> /\ l' = l + 1

TraceNext == TCfg \/ TOp \/ Deviate \/ Skip
TraceSpec == TraceInit /\ [][TraceNext]_tvars
TraceAccepted ==
  LET d == TLCGet("stats").diameter IN
  IF d - 1 = N THEN TRUE ELSE Print(<<"STUCK", d>>, FALSE)
=============================================================================
