------------------------------ MODULE Trace_Cli ------------------------------
(* Judges recorded results of the real Config::new / ClientConfig::new against *)
(* Cli.tla: error-or-every-public-field must equal the specification's Fold.   *)
EXTENDS Cli, Json, IOUtils

Rec == ndJsonDeserialize(IOEnv.TRACE)
N == Len(Rec)
VARIABLES l
E == Rec[l]
TraceInit == l = 1
Expected == IF E.who = "server" THEN SFold(E.args) ELSE CFold(E.args)
TraceNext ==
  /\ l <= N
  /\ (E.res # Expected) => PrintT(<<"DEV", l, "C17:" \o E.who>>)
  /\ l' = l + 1
TraceSpec == TraceInit /\ [][TraceNext]_l
TraceAccepted ==
  LET d == TLCGet("stats").diameter IN
  IF d - 1 = N THEN TRUE ELSE Print(<<"STUCK", d>>, FALSE)
=============================================================================
