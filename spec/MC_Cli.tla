------------------------------- MODULE MC_Cli -------------------------------
(* Enumerates argument vectors (token by token, or item by item), checks on   *)
(* each that the loop-shaped and the declarative definition agree and that    *)
(* the result is independent of the order of items, and prints each vector.   *)
EXTENDS Cli, Json, FiniteSets

CONSTANTS Mode, K
VARIABLES args, n
cvars == <<args, n>>

SValues == {"0.0.0.0", "::1", "x.y", "69", "0", "65535", "65536", "-1", "x", "254", "255", "256", "D1", "D2", "nope"}
STokens == SFlagsVal \cup SFlagsBool \cup {"--bogus"} \cup SValues
SItemSet ==
       { <<"-i", v>> : v \in {"0.0.0.0", "::1", "x.y"} } \cup { <<"--ip-address", "0.0.0.0">> }
  \cup { <<"-p", v>> : v \in {"69", "0", "65535", "65536", "x"} } \cup { <<"--port", "254">> }
  \cup { <<f, v>> : f \in {"-d", "-rd", "-sd"}, v \in {"D1", "D2", "nope"} }
  \cup { <<"--directory", "D2">>, <<"--receive-directory", "D1">>, <<"--send-directory", "/">> }
  \cup { <<"--duplicate-packets", v>> : v \in {"0", "254", "255", "256"} }
  \cup { <<b>> : b \in SFlagsBool } \cup { <<"--bogus">>, <<"-p">> }

CValues == {"0.0.0.0", "x.y", "69", "65535", "65536", "70000", "-1", "x", "D1", "nope", "f", "/f", "a\\b"}
CTokens == CFlagsVal \cup CFlagsBool \cup CValues
CItemSet ==
       { <<"-i", v>> : v \in {"0.0.0.0", "x.y"} } \cup { <<"-p", v>> : v \in {"69", "65536"} }
  \cup { <<"-b", v>> : v \in {"69", "70000", "x"} } \cup { <<"-w", v>> : v \in {"254", "65535", "65536"} }
  \cup { <<"-t", v>> : v \in {"69", "0", "-1"} } \cup { <<"-rd", v>> : v \in {"D1", "nope"} }
  \cup { <<"--blocksize", "65536">>, <<"--windowsize", "69">>, <<"--timeout", "255">> }
  \cup { <<b>> : b \in CFlagsBool } \cup { <<"f">>, <<"/f">>, <<"a\\b">>, <<"-w">> }

Server == Mode \in {"stok", "sitem"}
Prog == IF Server THEN "tftpd" ELSE "tftpc"
Init == args = <<Prog>> /\ n = 0
Next ==
  /\ n < K
  /\ n' = n + 1
  /\ CASE Mode = "stok"  -> \E t \in STokens : args' = Append(args, t)
       [] Mode = "sitem" -> \E it \in SItemSet : args' = args \o it
       [] Mode = "ctok"  -> \E t \in CTokens : args' = Append(args, t)
       [] Mode = "citem" -> \E it \in CItemSet : args' = args \o it
Spec == Init /\ [][Next]_cvars

PrintVector == PrintT(<<"SCRIPT", ToJson([who |-> IF Server THEN "server" ELSE "client", args |-> args'])>>)

\* C17: the loop and the documented meaning agree on every vector
C17_FoldIsDecl == IF Server THEN SFold(args) = SDecl(args) ELSE CFold(args) = CDecl(args)

\* C17: order independence.  Swapping two ADJACENT items that set different things never
\* changes the result (adjacent transpositions generate every reordering that keeps the
\* relative order of items for the same setting).
ItemsOf(a) == IF Server THEN SItems(a, 2) ELSE CItems(a, 1)
RECURSIVE TokLen(_, _)
TokLen(items, m) == IF m = 0 THEN 0 ELSE TokLen(items, m - 1) + items[m].w
Result(a) == IF Server THEN SDecl(a) ELSE CDecl(a)
SwapOK ==
  LET items == ItemsOf(args)
      first == IF Server THEN 2 ELSE 1 IN
  (Len(items) >= 2 /\ ~Result(args).err /\ Mode \in {"sitem", "citem"}) =>
    \A j \in 1..(Len(items) - 1) :
      items[j].k # items[j + 1].k =>
        LET a0 == first + TokLen(items, j - 1)          \* position of item j
            l1 == TokLen(items, j) - TokLen(items, j - 1)
            l2 == TokLen(items, j + 1) - TokLen(items, j)
            swapped == SubSeq(args, 1, a0 - 1) \o SubSeq(args, a0 + l1, a0 + l1 + l2 - 1)
                       \o SubSeq(args, a0, a0 + l1 - 1) \o SubSeq(args, a0 + l1 + l2, Len(args)) IN
        Result(swapped) = Result(args)
C17_OrderIndependent == SwapOK
=============================================================================
