SPECIFICATION Spec
CONSTANTS
  Mode = "sitem"
  K = 3
ACTION_CONSTRAINT PrintVector
CHECK_DEADLOCK FALSE
INVARIANTS C17_FoldIsDecl C17_OrderIndependent
