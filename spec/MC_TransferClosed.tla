-------------------------- MODULE MC_TransferClosed --------------------------
EXTENDS TransferClosed
Mk(W, NB, RS, RR, le, F) == [W |-> W, NB |-> NB, RS |-> RS, RR |-> RR, lastempty |-> le, F |-> F]
ClosedQuick == { Mk(W, NB, 1, 1, le, 2) : W \in 1..2, NB \in 1..3, le \in BOOLEAN } \cup { Mk(3, 4, 1, 1, FALSE, 2) }
ClosedFull  == { Mk(W, NB, 1, 1, le, F) : W \in 1..3, NB \in 1..5, le \in BOOLEAN, F \in {3} }
ClosedDup   == { Mk(W, NB, RS, RR, FALSE, 1) : W \in 1..2, NB \in 1..3, RS \in 1..2, RR \in 1..2 } \cup { Mk(2, 3, 3, 3, FALSE, 0) }
ClosedDeep  == { Mk(W, NB, 1, 1, FALSE, 5) : W \in 1..2, NB \in 1..3 }
ClosedNoFault == { Mk(W, NB, 1, 1, le, 0) : W \in 1..4, NB \in 1..6, le \in BOOLEAN }
=============================================================================
