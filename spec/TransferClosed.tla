--------------------------- MODULE TransferClosed ---------------------------
(***************************************************************************)
(* Two transfer workers of rs-tftpd talking to each other - the sender and *)
(* the receiver of Transfer.tla, e.g. tftpd's sender and tftpc's receiver  *)
(* (a download) or tftpc's sender and tftpd's receiver (an upload) - over  *)
(* two FIFO channels that a faulty network may disturb: drop, duplicate,   *)
(* or delay a datagram past the waiting side's timeout.  Every fault is    *)
(* charged to a budget F.  Each worker is thus the protocol-conformant     *)
(* peer of the other (C04), and the composition is the bundled client      *)
(* against the server (C14), also with duplicate-packets mode (C16).       *)
(***************************************************************************)
EXTENDS Naturals, Sequences, TLC

CONSTANTS CParams,   \* set of [W, NB, RS, RR, lastempty, F]: window, blocks, copies of sender / receiver, fault budget
          ChanCap    \* bound on datagrams in flight per direction (state-space bound only)

VARIABLES
  sp, spc, sbase, slen, seof, sretry, sel, sout, sbuf, sfile, sfex, sok, shi, sne,   \* the sender
  rp, rpc, rbase, rlen, reof, rretry, rel, rout, rbuf, rfile, rfex, rok, rhi, rne,   \* the receiver
  cSR, cRS,    \* channels: sender -> receiver (DATA), receiver -> sender (ACK)
  faults,      \* faults still allowed
  cp           \* the parameter record of this instance

S == INSTANCE Transfer WITH p <- sp, pc <- spc, base <- sbase, len <- slen, eof <- seof, retry <- sretry,
       el <- sel, out <- sout, buf <- sbuf, file <- sfile, fexists <- sfex, ok <- sok, hi <- shi, ne <- sne
R == INSTANCE Transfer WITH p <- rp, pc <- rpc, base <- rbase, len <- rlen, eof <- reof, retry <- rretry,
       el <- rel, out <- rout, buf <- rbuf, file <- rfile, fexists <- rfex, ok <- rok, hi <- rhi, ne <- rne

svars == <<sp, spc, sbase, slen, seof, sretry, sel, sout, sbuf, sfile, sfex, sok, shi, sne>>
rvars == <<rp, rpc, rbase, rlen, reof, rretry, rel, rout, rbuf, rfile, rfex, rok, rhi, rne>>
cvars == <<svars, rvars, cSR, cRS, faults, cp>>

SenderParams(c) == [role |-> "send", M |-> 65536, W |-> c.W, NB |-> c.NB, R |-> c.RS, T |-> 2, chk |-> FALSE,
                    clean |-> TRUE, base0 |-> 0, lastempty |-> c.lastempty, devfull |-> FALSE]
ReceiverParams(c) == [role |-> "recv", M |-> 65536, W |-> c.W, NB |-> 0, R |-> c.RR, T |-> 2, chk |-> FALSE,
                      clean |-> TRUE, base0 |-> 0, lastempty |-> FALSE, devfull |-> FALSE]

Init == \E c \in CParams :
  /\ cp = c /\ S!InitWith(SenderParams(c)) /\ R!InitWith(ReceiverParams(c))
  /\ cSR = <<>> /\ cRS = <<>> /\ faults = c.F

\* ---- the workers hand datagrams to the network ----
SEmit == /\ sout # S!None /\ Len(cSR) < ChanCap
         /\ cSR' = Append(cSR, S!NextOut) /\ S!Emit
         /\ UNCHANGED <<rvars, cRS, faults, cp>>
REmit == /\ rout # R!None /\ Len(cRS) < ChanCap
         /\ cRS' = Append(cRS, R!NextOut) /\ R!Emit
         /\ UNCHANGED <<svars, cSR, faults, cp>>

\* ---- the network delivers the head of a channel to a worker waiting at recv ----
DeliverData ==
  /\ cSR # <<>> /\ rout = R!None /\ rpc = "run"
  /\ LET m == Head(cSR) IN
     IF m.n = R!Wire(rbase + 1) THEN R!RecvDataInSeq(m.n, m.i, m.sz) ELSE R!RecvDataOutOfSeq(m.n)
  /\ cSR' = Tail(cSR)
  /\ UNCHANGED <<svars, cRS, faults, cp>>
DeliverAck ==
  /\ cRS # <<>> /\ sout = S!None /\ spc = "run"
  /\ LET m == Head(cRS) IN
     IF S!InWindow(m.n) THEN S!SendRecvAckInWindow(m.n) ELSE S!SendRecvAckOutside(m.n, 0)
  /\ cRS' = Tail(cRS)
  /\ UNCHANGED <<rvars, cSR, faults, cp>>
\* a datagram for a worker that has ended is discarded
DiscardData == cSR # <<>> /\ rpc \notin {"run"} /\ rout = R!None /\ cSR' = Tail(cSR) /\ UNCHANGED <<svars, rvars, cRS, faults, cp>>
DiscardAck  == cRS # <<>> /\ spc \notin {"run"} /\ sout = S!None /\ cRS' = Tail(cRS) /\ UNCHANGED <<svars, rvars, cSR, faults, cp>>

\* ---- timeouts: a worker's receive times out when nothing is on its way ... ----
Quiet == cSR = <<>> /\ cRS = <<>> /\ sout = S!None /\ rout = R!None
\* Both sides use the negotiated timeout, so when the network is quiet for that long every
\* worker still waiting times out - in the same step.
Timeout ==
  /\ Quiet /\ (spc = "run" \/ rpc = "run")
  /\ IF spc = "run" THEN S!SendRecvFail(2) ELSE UNCHANGED svars
  /\ IF rpc = "run" THEN R!RecvRecvFail ELSE UNCHANGED rvars
  /\ UNCHANGED <<cSR, cRS, faults, cp>>

\* ---- ... or as a FAULT: the datagram on its way is delayed past the timeout ----
SLateTimeout == /\ faults > 0 /\ ~Quiet /\ spc = "run" /\ sout = S!None /\ S!SendRecvFail(2)
                /\ faults' = faults - 1 /\ UNCHANGED <<rvars, cSR, cRS, cp>>
RLateTimeout == /\ faults > 0 /\ ~Quiet /\ rpc = "run" /\ rout = R!None /\ R!RecvRecvFail
                /\ faults' = faults - 1 /\ UNCHANGED <<svars, cSR, cRS, cp>>

\* ---- faults on datagrams ----
DropData == faults > 0 /\ cSR # <<>> /\ cSR' = Tail(cSR) /\ faults' = faults - 1 /\ UNCHANGED <<svars, rvars, cRS, cp>>
DropAck  == faults > 0 /\ cRS # <<>> /\ cRS' = Tail(cRS) /\ faults' = faults - 1 /\ UNCHANGED <<svars, rvars, cSR, cp>>
DupData  == faults > 0 /\ cSR # <<>> /\ Len(cSR) < ChanCap /\ cSR' = <<Head(cSR)>> \o cSR /\ faults' = faults - 1
            /\ UNCHANGED <<svars, rvars, cRS, cp>>
DupAck   == faults > 0 /\ cRS # <<>> /\ Len(cRS) < ChanCap /\ cRS' = <<Head(cRS)>> \o cRS /\ faults' = faults - 1
            /\ UNCHANGED <<svars, rvars, cSR, cp>>
SwapData == faults > 0 /\ Len(cSR) >= 2 /\ cSR' = <<cSR[2], cSR[1]>> \o SubSeq(cSR, 3, Len(cSR)) /\ faults' = faults - 1
            /\ UNCHANGED <<svars, rvars, cRS, cp>>

SExit == S!Exit /\ UNCHANGED <<rvars, cSR, cRS, faults, cp>>
RExit == R!Exit /\ UNCHANGED <<svars, cSR, cRS, faults, cp>>

Progress == SEmit \/ REmit \/ DeliverData \/ DeliverAck \/ DiscardData \/ DiscardAck \/ Timeout \/ SExit \/ RExit
Fault == DropData \/ DropAck \/ DupData \/ DupAck \/ SwapData \/ SLateTimeout \/ RLateTimeout
Next == Progress \/ Fault
Spec == Init /\ [][Next]_cvars /\ WF_cvars(Progress)

-----------------------------------------------------------------------------
Complete == [lo |-> 0, n |-> cp.NB - (IF cp.lastempty THEN 1 ELSE 0), x |-> <<>>]
ReceiverHasAll == rfile = (IF Complete.n = 0 THEN S!CSEmpty ELSE Complete)

\* C04: with fewer faults than the retry budget no worker ever gives up - except the sender
\* after the very last ACK was lost, when the receiver already holds the complete file
C04_NoFailureUnderBudget ==
  cp.F < 6 =>
    /\ rpc # "failed"
    /\ (spc = "failed" => rpc \in {"done", "exited"} /\ ReceiverHasAll)
\* C01 / C02 / C14: whoever finishes, finishes with the identical content
C14_ReceiverDoneHasAll == rpc \in {"done", "exited"} /\ rout = R!None => ReceiverHasAll
C14_SenderDoneMeansDelivered == spc = "done" => rpc \in {"done", "exited"} /\ ReceiverHasAll
\* the receiver only ever holds a prefix
C02_PrefixOnly == rfile.x = <<>> /\ (rfile.n = 0 \/ rfile.lo = 0) /\ rfile.n <= cp.NB

\* liveness (under weak fairness of Progress): the transfer ends on both sides
C04_Terminates == <>(spc \in {"exited"} /\ rpc \in {"exited"})
C04_CompletesWithoutFaults == (cp.F = 0) => <>(sok /\ rok)
=============================================================================
