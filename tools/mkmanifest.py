#!/usr/bin/env python3
"""Regenerates MANIFEST.json from the table below (one source of truth for the claims)."""
import json, os, subprocess
V = os.path.dirname(os.path.dirname(os.path.abspath(__file__)))
hooks = subprocess.run(["git", "-C", "/repo", "log", "--format=%H %s"], capture_output=True, text=True).stdout.splitlines()
hook_commits = [l.split()[0] for l in hooks if " verif hook " in " " + l]

WORKER_NOTE = ("Trusted: TLC; the harness's simulated socket and payload projection (harness/src/sim.rs); hooks H1-H3. "
               "Exhaustive only within the stated bounds of the open model (W<=3..4, files <=4..6 blocks, T=2 ticks); "
               "beyond them sampled by targeted families (window sizes 65534/65535, wrap-around at the real modulus).")
WORKER_TECH = "TLA+ spec (Transfer.tla) model-checked with TLC; every explored input transition replayed on the real Worker; recorded traces validated against the trace spec by TLC"

def worker(pid, text, ref):
    return dict(property_id=pid, engine="wsim", level_claimed=dict(category="model_checking", text=text, design_ref=ref),
                level_note=WORKER_NOTE, technique=WORKER_TECH)

CHECKS = [
 worker("C01", "TLC checks the sender design (slice/numbering/no-gap invariants) against an adversarial peer and emits one script per explored input transition; each is replayed on the real Worker and the recorded trace (every DATA datagram's number, slice identity and size class, worker scalars, exit) must be a behaviour of the specification. Seeded random scenarios (reference receiver behind a faulty network) at the real modulus, and model-client downloads through the real process at the block-size boundaries in both port modes, are judged by the same trace specification.", "6/C01"),
 worker("C02", "Same pipeline for the receiver: at every ACK the harness reads the target file from inside Socket::send and TLC compares its projection with the specification's file variable (AckImpliesStored, AckOnlyInSeq, file = accepted prefix). Families include a target that already exists with longer content; seeded random scenarios with a reference sender; model-client uploads through the real process (real socket receive paths, block sizes to 65464, one endpoint re-used for consecutive transfers in single-port mode).", "6/C02"),
 worker("C04", "Trace acceptance decides the safety half of loss tolerance on every explored state: a worker may give up only after 6 consecutive failed receives or an ERROR, must retransmit when the timeout has elapsed and must re-acknowledge on out-of-sequence DATA. TransferClosed.tla (the two workers of the specification against each other over a faulty network with a fault budget) is model-checked for safety and liveness; a real-process download with two consecutive silences checks that the negotiated timeout is what the worker is built with. The retry budget is specified as a budget of CONSECUTIVE failed receives (action property C04_BudgetIsForConsecutiveFailures, checked in every family; defect D8 found and repaired); nine rounds of 'head of the window arrives, tail is lost, one timeout' are driven through the real Worker (recv-lossy-tail) and, with the kernel doing the dropping, through the real binaries (tftpc -b 65464 -w 7 -u, final state).", "6/C04"),
 worker("C07", "Termination invariants (ends at final ACK, on ERROR, after 6 failures; nothing committed after the end; nothing beyond the final block) model-checked; every state x {ERROR, silence, bogus reply to OACK} replayed on the real Worker incl. thread exit and outcome, with every accepted shape of ERROR packet. Real-process silent-peer scenarios (download and upload, negotiated 1 s and default 5 s timeout, both port modes): one recorded failure per timeout, retransmission after each of the first five, reported give-up after the sixth. Peer-ERROR scenarios against the real process in both port modes: ERROR in mid-transfer, the wire watched across the worker's timeout, end reported within the second.", "6/C07"),
 worker("C08", "Window invariants and the action properties RetransmitOnlyOnTimeoutOrGap / ResumeAtKPlus1 / StaleAckInert model-checked; replay with virtual time offsets just below and at the timeout; targeted families at windowsize 65534 and 65535. Receivers buffering a megabyte and more (blksize x windowsize) must still acknowledge after exactly windowsize blocks; transfers against the real process whose window (257, 300, 65535) the model client takes from the OACK.", "6/C08"),
 worker("C13", "First clause: every abort point x cause (ERROR, six silences, write error via /dev/full) x {clean, keep} x W replayed on the real receiver; exit event carries file existence and content projection. Second clause: Server.tla (listener, worker life cycles, disk, AsCoded switch) model-checked; request histories (retransmitted / duplicate WRQs, pre-existing targets, hang-up after completion in duplicate-packets mode, silent peers) driven against the real process and validated by Trace_Server / Trace_Transfer. One open known finding (D6).", "6/C13"),
 worker("C15", "Small-modulus instances (M=4, 8) model-checked across several wraps for every W<=M-1; at the real modulus the worker is fast-forwarded to 65533/65534 and every transition of the graph around the wrap is replayed. The wrap families run with and without the OACK handshake (an ACK 0 is the handshake's answer at the start and block 65536's acknowledgement at the wrap).", "6/C15"),
 worker("C16", "CopiesExactlyR is part of the output descriptor of the specification; families with R=2,3 replayed and judged event-for-event (each DATA / data-phase ACK exactly R times, error reply once). The --duplicate-packets bound is judged through Cli.tla and by starting the real binary; real tftpc against real tftpd with N=1,2,3 through an order-preserving proxy (wire multiplicities) and directly (final files). Lock-step downloads from the real process at N = 254 (both port modes) by a model client that acknowledges every copy at once.", "6/C16"),
 dict(property_id="C10", engine="pure", level_claimed=dict(category="model_checking", text="Codec.tla transcribes the wire format; TLC enumerates byte strings (opcode prefixes x token sequences over a reduced alphabet, structured heads x deep token sequences, all 65536 two-byte prefixes x tails), checks stability on each and prints it; the real decoder runs under catch_unwind on each and TLC evaluates Decode on the recorded bytes.", design_ref="6/C10"),
      level_note="Trusted: TLC, the transcription in Codec.tla, harness/src/bin/pure.rs projection of Packet values. Bounded, complete over the reduced alphabet up to the stated token depth.", technique="TLA+ transcription (Codec.tla) enumerated by TLC; one implementation test per enumerated point; results judged by TLC"),
 dict(property_id="C11", engine="pure", level_claimed=dict(category="model_checking", text="Packet values enumerated from a grammar in TLC with RoundTrip as invariant; the real serialize must equal Encode byte-for-byte and deserialize must return the identical packet; all 65536 values of both enum conversions judged by TLC.", design_ref="6/C11"),
      level_note="Same trusted base as C10.", technique="TLA+ transcription (Codec.tla) enumerated by TLC; real encoder/decoder outputs judged by TLC"),
 dict(property_id="C17", engine="pure", level_claimed=dict(category="model_checking", text="Cli.tla gives the loop-shaped and the declarative meaning of an argument vector; TLC checks Fold=Decl and order independence on every enumerated vector (token- and item-level) and prints it; the real Config::new / ClientConfig::new must return error-or-identical-fields.", design_ref="6/C17"),
      level_note="Trusted: TLC, the token-meaning tables in Cli.tla, the harness's directory layout. -h excluded.", technique="TLA+ spec (Cli.tla) enumerated by TLC; one implementation test per vector; judged by TLC"),
 dict(property_id="C18", engine="pure", level_claimed=dict(category="model_checking", text="Window.tla models the chunk queue over a file; TLC explores the operation graph for all file lengths relative to chunk and window size and prints one script per transition; the real Window over real files must agree on return values, elements, observers and file bytes after every operation.", design_ref="6/C18"),
      level_note="Trusted: TLC, harness projection. Exhaustive for size<=2..3, chunk<=2..3, bounded sequence length.", technique="TLA+ spec (Window.tla) model-checked; every transition replayed on the real Window; traces validated by TLC"),
]
EXTRA = os.path.join(V, "tools", "manifest_extra.json")
if os.path.exists(EXTRA):
    CHECKS += json.load(open(EXTRA))
for c in CHECKS:
    pid = c["property_id"]
    c["quick_cmd"] = "./check %s --tier quick" % pid
    c["thorough_cmd"] = "./check %s --tier thorough" % pid
    c["evidence_file"] = "/verif/evidence/%s.json" % pid
    c["replay_cmd_template"] = "./check replay {path}"
claimed = {c["property_id"] for c in CHECKS}
ALL = ["C%02d" % i for i in range(1, 19)]
NA_REASONS = json.load(open(os.path.join(V, "tools", "not_applicable.json"))) if os.path.exists(os.path.join(V, "tools", "not_applicable.json")) else {}
na = [dict(property_id=p, reason=NA_REASONS.get(p, "check not built yet in this session; see DESIGN.md section 6 for the planned decision procedure")) for p in ALL if p not in claimed]
m = {
 "version": 1,
 "setup_cmd": "./check setup",
 "hooks": {"guard": "--cfg rs_tftpd_verif",
           "enable": "harness/.cargo/config.toml sets rustflags = [\"--cfg\", \"rs_tftpd_verif\"]; the harness compiles /repo as a path dependency, so every check rebuilds the current working tree with hooks on",
           "baseline_off_cmd": "cd /repo && cargo test --workspace --no-fail-fast --offline",
           "source_commits": hook_commits, "add_only": True},
 "engines": [
  {"name": "spec", "path": "spec/", "serves_properties": ALL, "kind_free_text": "TLA+ specifications, MC / generation configs and trace specifications, run with TLC"},
  {"name": "wsim", "path": "harness/src/sim.rs", "serves_properties": ["C01","C02","C04","C07","C08","C13","C15","C16"], "kind_free_text": "real tftpd::Worker over a simulated Socket and virtual clock; script replay and trace recording"},
  {"name": "pure", "path": "harness/src/bin/pure.rs", "serves_properties": ["C10","C11","C17","C18"], "kind_free_text": "real Packet / Window / Config / ClientConfig driven by TLC-generated vectors"},
  {"name": "net", "path": "vlib/net.py", "serves_properties": ["C03","C05","C06","C09","C12","C13"], "kind_free_text": "real tftpd child process in a sandbox with decoys; one exchange per endpoint with sentinel-confirmed silence; sandbox delta"},
  {"name": "xfer", "path": "vlib/xfer.py", "serves_properties": ["C01","C02","C04","C05","C07","C08","C09","C12","C13","C16"], "kind_free_text": "model clients against the real process recording transfers in the worker-level event vocabulary (judged by Trace_Transfer)"},
  {"name": "interop", "path": "vlib/interop.py", "serves_properties": ["C04","C14","C16"], "kind_free_text": "real tftpc against real tftpd through a recording, order-preserving proxy; tftpc against a scripted model server"},
  {"name": "extras", "path": "vlib/extras.py", "serves_properties": ["C02","C08","C15"], "kind_free_text": "unbounded side arguments recorded in evidence: Apalache inductive invariants (SenderInd, ReceiverInd), TLAPS wrap lemma"},
  {"name": "check", "path": "check", "serves_properties": ALL, "kind_free_text": "orchestration: TLC generation (cached by spec hash), replay, TLC judging, attribution, evidence, known findings"},
 ],
 "checks": sorted(CHECKS, key=lambda c: c["property_id"]),
 "not_applicable": na,
 "notes": "Deviations are classified by the trace specification itself (Label in Trace_Transfer.tla); a check reports only deviations labelled with its own property. known_findings.json lists the defects found by this machinery: D1 D2 D3 D4 D5 D7 D8 repaired by fix: commits in /repo, D6 open (KNOWN-FINDING line of C13).",
}
json.dump(m, open(os.path.join(V, "MANIFEST.json"), "w"), indent=1)
print("checks:", sorted(claimed), "not_applicable:", [x["property_id"] for x in na])
