#!/usr/bin/env python3
"""Re-runs quick checks against a filed seeded change (after the checks were strengthened) and
updates its meta.json, keeping the first outcome.   usage: seed_recheck.py <seed-id> <checks,...>"""
import json, re, subprocess, sys
sid, checks = sys.argv[1], sys.argv[2].split(",")
d = "/verif/seeded/" + sid
meta = json.load(open(d + "/meta.json"))
r = subprocess.run("/verif/tools/try_patch.sh %s/patch.diff %s" % (d, " ".join(checks)), shell=True, cwd="/verif", capture_output=True, text=True, timeout=3000)
out = r.stdout + r.stderr
for c in checks:
    m = re.search(r"\[%s\] exit=(\d+)(.*)" % c, out)
    new = {"exit": int(m.group(1)) if m else None, "line": (m.group(2).strip()[:160] if m else "")}
    lab = re.search(r"  %s: ([^ ]+)" % c, out)
    if lab:
        new["label"] = lab.group(1)
    old = meta["checks_run"].get(c)
    if old and old.get("exit") != new["exit"]:
        new["first_attempt"] = {k: old[k] for k in ("exit", "line") if k in old}
    meta["checks_run"][c] = new
meta["detected_by"] = [c for c, v in meta["checks_run"].items() if v.get("exit") == 1]
json.dump(meta, open(d + "/meta.json", "w"), indent=1)
print(sid, "detected_by:", meta["detected_by"])
