#!/usr/bin/env python3
"""Confirms a seeded change in its scratch worktree (compiles, baseline tests pass, the demonstration
fails with it and passes without it), runs the named quick checks against it in /repo, and files
it under /verif/seeded/<id>/.   usage: seed_confirm.py <worktree> <mN> <seed-id> <property> <checks,...>"""
import json, os, shutil, subprocess, sys, glob, re
wt, mdir, sid, prop, checks = sys.argv[1], sys.argv[2], sys.argv[3], sys.argv[4], sys.argv[5].split(",")
src = os.path.join(wt, "OUT", mdir)
patch = os.path.join(src, "patch.diff")
def sh(cmd, cwd=None, timeout=900):
    r = subprocess.run(cmd, shell=True, cwd=cwd, capture_output=True, text=True, timeout=timeout)
    return r.returncode, (r.stdout + r.stderr)
def demo_cmd():
    demos = sorted(glob.glob(os.path.join(src, "demo*")))
    d = demos[0]
    if d.endswith(".py"):
        return "python3 %s %s" % (d, wt), None
    if d.endswith(".rs"):
        name = "seeded_demo_" + mdir
        return "cargo test --offline --features client --test %s" % name, (d, os.path.join(wt, "tests", name + ".rs"))
    if d.endswith(".sh"):
        return "bash %s %s" % (d, wt), None
    raise SystemExit("unknown demo kind " + d)
cmd, copy = demo_cmd()
sh("git checkout -- . && git clean -fdq -e OUT -e target", wt)
meta = {"id": sid, "property": prop, "source": "sub-agent given only the property text and a scratch worktree"}
# clean tree first: find the invocation that passes (some demos take the project root, some nothing)
sh("cargo build --offline --features client 2>&1 | tail -1", wt)
if copy: shutil.copy(copy[0], copy[1])
rc0, out0 = sh(cmd, wt, timeout=600)
if rc0 != 0 and cmd.startswith("python3") and cmd.endswith(" " + wt):
    alt = cmd[: -len(wt) - 1]
    rc0b, out0b = sh(alt, wt, timeout=600)
    if rc0b == 0:
        cmd, rc0, out0 = alt, rc0b, out0b
meta["demo_cmd"] = cmd
meta["demo_clean_exit"] = rc0
rc, out = sh("git apply %s" % patch, wt); assert rc == 0, out
rc, out = sh("cargo build --offline --features client 2>&1 | tail -3", wt); meta["compiles"] = "error" not in out
rc, out = sh("cargo test --offline --lib 2>&1 | grep 'test result'", wt)
if "42 passed" not in out:      # the two window unit tests race on a shared directory; once more
    rc, out = sh("cargo test --offline --lib 2>&1 | grep 'test result'", wt)
meta["baseline_tests_with_change"] = out.strip().splitlines()[:1]
rc1, out1 = sh(cmd, wt, timeout=600)
meta["demo_with_change_exit"] = rc1
if copy: os.remove(copy[1])
sh("git checkout -- . && git clean -fdq -e OUT -e target", wt)
sh("cargo build --offline --features client 2>&1 | tail -1", wt)
meta["confirmed"] = bool(meta["compiles"] and rc1 != 0 and rc0 == 0 and "42 passed" in " ".join(meta["baseline_tests_with_change"]))
readme = open(os.path.join(src, "README.md")).read() if os.path.exists(os.path.join(src, "README.md")) else ""
meta["needs_to_manifest"] = readme[:1500]
# run the checks against /repo with the change applied
res = {}
rc, out = sh("/verif/tools/try_patch.sh %s %s" % (patch, " ".join(checks)), "/verif", timeout=3000)
for c in checks:
    m = re.search(r"\[%s\] exit=(\d+)(.*)" % c, out)
    res[c] = {"exit": int(m.group(1)) if m else None, "line": (m.group(2).strip()[:160] if m else "")}
    lab = re.search(r"  %s: ([^ ]+)" % c, out)
    if lab: res[c]["label"] = lab.group(1)
meta["checks_run"] = res
meta["detected_by"] = [c for c in checks if res[c]["exit"] == 1]
dst = os.path.join("/verif/seeded", sid)
os.makedirs(dst, exist_ok=True)
shutil.copy(patch, os.path.join(dst, "patch.diff"))
for f in glob.glob(os.path.join(src, "demo*")) + glob.glob(os.path.join(src, "README.md")):
    shutil.copy(f, dst)
json.dump(meta, open(os.path.join(dst, "meta.json"), "w"), indent=1)
print(sid, "confirmed" if meta["confirmed"] else "NOT CONFIRMED", "demo with/without:", rc1, rc0, "detected_by:", meta["detected_by"])
