#!/bin/bash
# usage: tools/try_patch.sh <patch.diff> <check ids...>   -- applies the patch to /repo, runs the quick checks, reverts
patch=$1; shift
cd /repo || exit 2
git diff --quiet || { echo "/repo is dirty"; exit 2; }
git apply "$patch" || { echo "patch does not apply"; exit 2; }
trap 'git -C /repo checkout -- . ; git -C /repo clean -fdq -e target' EXIT
cd /verif
for c in "$@"; do
  out=$(timeout 1500 ./check $c --tier ${TIER:-quick} 2>&1); rc=$?
  echo "[$c] exit=$rc $(echo "$out" | grep -E 'VIOLATION|TOOL ERROR' | head -2 | cut -c1-200)"
  echo "$out" | grep -A1 VIOLATION | grep -v VIOLATION | head -2 | cut -c1-220
done
