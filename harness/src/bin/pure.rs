//! pure: replay scripts on the real pure / sequential layers of rs-tftpd and record traces.
//!
//!   pure window <scripts.ndjson> <trace.ndjson>
//!   pure codec  <vectors.ndjson> <trace.ndjson>
//!   pure cli    <vectors.ndjson> <trace.ndjson>

use serde_json::{json, Value};
use std::fs::{self, File};
use std::io::{BufRead, BufReader, BufWriter, Write};
use std::path::{Path, PathBuf};
use tftpd::{ClientConfig, Config, ErrorCode, Mode, Opcode, OptionType, Packet, TransferOption, Window};
use vharness::{jbool, jint, jstr};

fn read_lines(path: &str) -> Vec<Value> {
    BufReader::new(File::open(path).expect("input file"))
        .lines()
        .map(|l| l.unwrap())
        .filter(|l| !l.trim().is_empty())
        .map(|l| serde_json::from_str(&l).expect("json"))
        .collect()
}

fn bytes_json(b: &[u8]) -> Value {
    Value::Array(b.iter().map(|x| json!(*x)).collect())
}

fn json_bytes(v: &Value) -> Vec<u8> {
    v.as_array()
        .map(|a| a.iter().map(|x| x.as_u64().unwrap_or(0) as u8).collect())
        .unwrap_or_default()
}

fn window_script(script: &Value, sid: usize, dir: &Path, out: &mut Vec<Value>) {
    let cfg = &script["cfg"];
    let mode = jstr(cfg, "mode", "r").to_string();
    let size = jint(cfg, "size", 1) as u16;
    let chunk = jint(cfg, "chunk", 1) as usize;
    let flen = jint(cfg, "flen", 0) as usize;
    let path = dir.join("w.bin");
    let _ = fs::remove_file(&path);
    let file0: Vec<u8> = if mode == "r" {
        (1..=flen).map(|i| (i % 251) as u8).collect()
    } else {
        vec![]
    };
    let file = if mode == "r" {
        fs::write(&path, &file0).unwrap();
        File::open(&path).unwrap()
    } else {
        File::create(&path).unwrap()
    };
    out.push(json!({"e":"cfg","sid":sid,"mode":mode,"size":size,"chunk":chunk,"flen":flen,
                    "pure":jbool(cfg,"pure",false),"file0":bytes_json(&file0)}));
    let mut w = Window::new(size, chunk, file);
    let empty = vec![];
    for step in script["steps"].as_array().unwrap_or(&empty) {
        let op = jstr(step, "op", "fill").to_string();
        let mut ev = step.clone();
        ev["e"] = json!("op");
        // a panic of the code under test is data: recorded, and the script ends there
        let res = std::panic::catch_unwind(std::panic::AssertUnwindSafe(|| match op.as_str() {
            "fill" => match w.fill() {
                Ok(b) => (true, b as i64),
                Err(_) => (false, 0),
            },
            "empty" => (w.empty().is_ok(), 0),
            "remove" => (w.remove(jint(step, "k", 0) as u16).is_ok(), 0),
            "add" => (w.add(json_bytes(&step["d"])).is_ok(), 0),
            _ => (false, -1),
        }));
        let panicked = res.is_err();
        let (ok, val) = res.unwrap_or((false, 0));
        ev["panic"] = json!(panicked);
        ev["ok"] = json!(ok);
        ev["val"] = json!(val);
        ev["elems"] = Value::Array(w.get_elements().iter().map(|c| bytes_json(c)).collect());
        ev["len"] = json!(w.len());
        ev["full"] = json!(w.is_full());
        ev["empty"] = json!(w.is_empty());
        ev["file"] = bytes_json(&fs::read(&path).unwrap_or_default());
        out.push(ev);
        if panicked {
            break;
        }
    }
}

fn digits_json(v: usize) -> Value {
    Value::Array(v.to_string().bytes().map(|c| json!(c - b'0')).collect())
}

fn opts_json(opts: &[TransferOption]) -> Value {
    Value::Array(
        opts.iter()
            .map(|o| json!({"o": o.option.as_str(), "v": digits_json(o.value)}))
            .collect(),
    )
}

fn packet_json(p: &Packet) -> Value {
    match p {
        Packet::Rrq { filename, mode, options } => json!({"t":"rrq","fn":bytes_json(filename.as_bytes()),
            "mode":bytes_json(mode.as_bytes()),"opts":opts_json(options)}),
        Packet::Wrq { filename, mode, options } => json!({"t":"wrq","fn":bytes_json(filename.as_bytes()),
            "mode":bytes_json(mode.as_bytes()),"opts":opts_json(options)}),
        Packet::Data { block_num, data } => json!({"t":"data","n":*block_num,"d":bytes_json(data)}),
        Packet::Ack(n) => json!({"t":"ack","n":*n}),
        Packet::Error { code, msg } => json!({"t":"error","code":*code as u16,"msg":bytes_json(msg.as_bytes())}),
        Packet::Oack(options) => json!({"t":"oack","opts":opts_json(options)}),
    }
}

fn json_opts(v: &Value) -> Vec<TransferOption> {
    v.as_array()
        .map(|a| {
            a.iter()
                .map(|o| {
                    let digits: String = o["v"]
                        .as_array()
                        .unwrap()
                        .iter()
                        .map(|d| (b'0' + d.as_u64().unwrap() as u8) as char)
                        .collect();
                    TransferOption {
                        option: jstr(o, "o", "blksize").parse::<OptionType>().unwrap(),
                        value: digits.parse::<usize>().unwrap(),
                    }
                })
                .collect()
        })
        .unwrap_or_default()
}

fn json_packet(v: &Value) -> Packet {
    let s = |k: &str| String::from_utf8(json_bytes(&v[k])).unwrap();
    match jstr(v, "t", "") {
        "rrq" => Packet::Rrq { filename: s("fn"), mode: s("mode"), options: json_opts(&v["opts"]) },
        "wrq" => Packet::Wrq { filename: s("fn"), mode: s("mode"), options: json_opts(&v["opts"]) },
        "data" => Packet::Data { block_num: jint(v, "n", 0) as u16, data: json_bytes(&v["d"]) },
        "ack" => Packet::Ack(jint(v, "n", 0) as u16),
        "error" => Packet::Error {
            code: ErrorCode::from_u16(jint(v, "code", 0) as u16).unwrap(),
            msg: s("msg"),
        },
        _ => Packet::Oack(json_opts(&v["opts"])),
    }
}

fn decode_result(bytes: &[u8]) -> Value {
    let b = bytes.to_vec();
    match std::panic::catch_unwind(move || Packet::deserialize(&b).ok()) {
        Ok(Some(p)) => packet_json(&p),
        Ok(None) => json!({"t":"err"}),
        Err(_) => json!({"t":"panic"}),
    }
}

/// One vector: {"b":[bytes]} decode / {"p":{packet}} encode / {"u16":[from,to]} conversions.
fn codec_vector(v: &Value, sid: usize, out: &mut Vec<Value>) {
    if let Some(b) = v.get("b") {
        let bytes = json_bytes(b);
        let res = decode_result(&bytes);
        let mut ev = json!({"e":"dec","sid":sid,"b":bytes_json(&bytes),"res":res.clone()});
        if res["t"] != "err" && res["t"] != "panic" {
            let p = Packet::deserialize(&bytes).unwrap();
            match std::panic::catch_unwind(move || p.serialize()).unwrap_or_else(|_| Ok(b"PANIC".to_vec())) {
                Ok(re) => {
                    ev["redec"] = decode_result(&re);
                    ev["reenc"] = bytes_json(&re);
                }
                Err(_) => {
                    ev["redec"] = json!({"t":"err"});
                    ev["reenc"] = json!([]);
                }
            }
        }
        out.push(ev);
    } else if let Some(p) = v.get("p") {
        let packet = json_packet(p);
        let bytes = std::panic::catch_unwind(move || packet.serialize().unwrap_or_default()).unwrap_or_else(|_| b"PANIC".to_vec());
        out.push(json!({"e":"enc","sid":sid,"p":p.clone(),"bytes":bytes_json(&bytes),"p2":decode_result(&bytes)}));
    } else if let Some(r) = v.get("u16") {
        let from = r[0].as_u64().unwrap_or(0);
        let to = r[1].as_u64().unwrap_or(65535);
        for n in from..=to {
            let n = n as u16;
            // a panic of the code under test is data, not a harness failure
            match std::panic::catch_unwind(move || Opcode::from_u16(n).ok().map(|op| op.as_bytes())) {
                Ok(Some(b)) => out.push(json!({"e":"op","sid":sid,"n":n,"ok":true,"panic":false,"bytes":bytes_json(&b)})),
                Ok(None) => out.push(json!({"e":"op","sid":sid,"n":n,"ok":false,"panic":false,"bytes":[]})),
                Err(_) => out.push(json!({"e":"op","sid":sid,"n":n,"ok":false,"panic":true,"bytes":[]})),
            }
            match std::panic::catch_unwind(move || ErrorCode::from_u16(n).ok().map(|ec| ec.as_bytes())) {
                Ok(Some(b)) => out.push(json!({"e":"ec","sid":sid,"n":n,"ok":true,"panic":false,"bytes":bytes_json(&b)})),
                Ok(None) => out.push(json!({"e":"ec","sid":sid,"n":n,"ok":false,"panic":false,"bytes":[]})),
                Err(_) => out.push(json!({"e":"ec","sid":sid,"n":n,"ok":false,"panic":true,"bytes":[]})),
            }
        }
    }
}

fn dir_name(p: &Path, cwd: &Path) -> String {
    if p == cwd {
        "CWD".to_string()
    } else {
        p.to_string_lossy().to_string()
    }
}

/// One vector {"who": "server"|"client", "args": [...]}: the real parser's verdict and fields.
fn cli_vector(v: &Value, sid: usize, cwd: &Path, out: &mut Vec<Value>) {
    let args: Vec<String> = v["args"]
        .as_array()
        .map(|a| a.iter().map(|x| x.as_str().unwrap_or("").to_string()).collect())
        .unwrap_or_default();
    let who = jstr(v, "who", "server").to_string();
    let a2 = args.clone();
    let res = if who == "server" {
        match std::panic::catch_unwind(move || Config::new(a2.into_iter())) {
            Ok(Ok(c)) => json!({"err":false,"ip":c.ip_address.to_string(),"port":c.port.to_string(),
                "dir":dir_name(&c.directory,cwd),"rd":dir_name(&c.receive_directory,cwd),
                "sd":dir_name(&c.send_directory,cwd),"single":c.single_port,"ro":c.read_only,
                "dup":c.duplicate_packets.to_string(),"ow":c.overwrite,"clean":c.clean_on_error}),
            Ok(Err(_)) => json!({"err":true}),
            Err(_) => json!({"err":true,"panic":true}),
        }
    } else {
        match std::panic::catch_unwind(move || ClientConfig::new(a2.into_iter())) {
            Ok(Ok(c)) => json!({"err":false,"ip":c.remote_ip_address.to_string(),"port":c.port.to_string(),
                "blk":c.blocksize.to_string(),"win":c.windowsize.to_string(),"tmo":c.timeout.as_secs().to_string(),
                "mode":if c.mode == Mode::Upload {"upload"} else {"download"},
                "rd":c.receive_directory.to_string_lossy(),"file":c.file_path.to_string_lossy(),
                "clean":c.clean_on_error}),
            Ok(Err(_)) => json!({"err":true}),
            Err(_) => json!({"err":true,"panic":true}),
        }
    };
    out.push(json!({"e":"cli","sid":sid,"who":who,"args":args,"res":res}));
}

fn main() {
    let args: Vec<String> = std::env::args().collect();
    if args.len() < 4 {
        eprintln!("usage: pure <window|codec|cli> <in.ndjson> <out.ndjson>");
        std::process::exit(2);
    }
    std::panic::set_hook(Box::new(|_| {}));
    let input = read_lines(&args[2]);
    let out_path = fs::canonicalize(Path::new(&args[3]).parent().unwrap_or(Path::new(".")))
        .unwrap()
        .join(Path::new(&args[3]).file_name().unwrap());
    let dir = PathBuf::from(format!("../work/pure/p{}", std::process::id()));
    fs::create_dir_all(&dir).unwrap();
    let dir = fs::canonicalize(&dir).unwrap();
    let mut out: Vec<Value> = Vec::new();
    match args[1].as_str() {
        "window" => {
            for (i, s) in input.iter().enumerate() {
                window_script(s, i + 1, &dir, &mut out);
            }
        }
        "cli" => {
            // directories the token universe refers to: D1, D2 exist, nothing else does
            let cwd = fs::canonicalize(&dir).unwrap();
            fs::create_dir_all(cwd.join("D1")).unwrap();
            fs::create_dir_all(cwd.join("D2")).unwrap();
            std::env::set_current_dir(&cwd).unwrap();
            for (i, s) in input.iter().enumerate() {
                cli_vector(s, i + 1, &cwd, &mut out);
            }
            std::env::set_current_dir("/").unwrap();
        }
        "codec" => {
            for (i, s) in input.iter().enumerate() {
                codec_vector(s, i + 1, &mut out);
            }
        }
        other => {
            eprintln!("unknown layer {other}");
            std::process::exit(2);
        }
    }
    let _ = fs::remove_dir_all(&dir);
    let mut w = BufWriter::new(File::create(&out_path).expect("trace file"));
    for ev in &out {
        serde_json::to_writer(&mut w, ev).unwrap();
        w.write_all(b"\n").unwrap();
    }
    w.flush().unwrap();
    println!("inputs={} events={}", input.len(), out.len());
}
