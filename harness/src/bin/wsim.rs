//! wsim: replay scripts on the real Worker and record traces.
//!
//!   wsim replay <scripts.ndjson> <trace-out.ndjson> [--jobs N] [--workdir DIR]
//!
//! Each input line is {"cfg": {...}, "steps": [...]}; the output is the concatenation of
//! the recorded event sequences, each starting with a `cfg` event carrying `sid` = the
//! 1-based line number of its script.

use serde_json::Value;
use std::fs::File;
use std::io::{BufRead, BufReader, BufWriter, Write};
use std::path::PathBuf;
use std::sync::atomic::{AtomicUsize, Ordering};
use std::sync::{Arc, Mutex};
use vharness::sim::run_script;

fn main() {
    let args: Vec<String> = std::env::args().collect();
    if args.len() >= 3 && args[1] == "random" {
        return random_main(&args);
    }
    if args.len() < 4 || args[1] != "replay" {
        eprintln!("usage: wsim replay <scripts.ndjson> <trace.ndjson> [--jobs N] [--workdir DIR]");
        eprintln!("       wsim random <trace.ndjson> --seed S --count N --profile small|wrap|bigw|bigblk [--jobs N] [--workdir DIR]");
        std::process::exit(2);
    }
    let mut jobs = 8usize;
    let mut workdir = PathBuf::from("../work/sim");
    let mut i = 4;
    while i < args.len() {
        match args[i].as_str() {
            "--jobs" => {
                jobs = args[i + 1].parse().unwrap();
                i += 2;
            }
            "--workdir" => {
                workdir = PathBuf::from(&args[i + 1]);
                i += 2;
            }
            _ => {
                eprintln!("unknown argument {}", args[i]);
                std::process::exit(2);
            }
        }
    }
    // panics in worker threads are data (the trace shows an exit without outcome)
    std::panic::set_hook(Box::new(|_| {}));
    tftpd::verif::simulate_time(true);

    let scripts: Vec<Value> = BufReader::new(File::open(&args[2]).expect("scripts file"))
        .lines()
        .map(|l| l.unwrap())
        .filter(|l| !l.trim().is_empty())
        .map(|l| serde_json::from_str(&l).expect("script json"))
        .collect();
    let scripts = Arc::new(scripts);
    let results: Arc<Mutex<Vec<Option<Vec<Value>>>>> =
        Arc::new(Mutex::new(vec![None; scripts.len()]));
    let next = Arc::new(AtomicUsize::new(0));
    let base = workdir.join(format!("p{}", std::process::id()));
    let mut handles = vec![];
    for j in 0..jobs {
        let scripts = scripts.clone();
        let results = results.clone();
        let next = next.clone();
        let dir = base.join(format!("j{j}"));
        handles.push(std::thread::spawn(move || loop {
            let k = next.fetch_add(1, Ordering::SeqCst);
            if k >= scripts.len() {
                break;
            }
            let evs = run_script(&scripts[k], k + 1, &dir);
            results.lock().unwrap()[k] = Some(evs);
        }));
    }
    for h in handles {
        h.join().unwrap();
    }
    let _ = std::fs::remove_dir_all(&base);
    let mut out = BufWriter::new(File::create(&args[3]).expect("trace file"));
    let results = results.lock().unwrap();
    let mut n = 0usize;
    for r in results.iter() {
        for ev in r.as_ref().unwrap() {
            serde_json::to_writer(&mut out, ev).unwrap();
            out.write_all(b"\n").unwrap();
            n += 1;
        }
    }
    out.flush().unwrap();
    println!("scripts={} events={}", scripts.len(), n);
}

fn random_main(args: &[String]) {
    let mut jobs = 8usize;
    let mut workdir = PathBuf::from("../work/sim");
    let (mut seed, mut count, mut profile) = (1u64, 10usize, "small".to_string());
    let mut i = 3;
    while i + 1 < args.len() {
        match args[i].as_str() {
            "--jobs" => jobs = args[i + 1].parse().unwrap(),
            "--workdir" => workdir = PathBuf::from(&args[i + 1]),
            "--seed" => seed = args[i + 1].parse().unwrap(),
            "--count" => count = args[i + 1].parse().unwrap(),
            "--profile" => profile = args[i + 1].clone(),
            _ => {}
        }
        i += 2;
    }
    std::panic::set_hook(Box::new(|_| {}));
    tftpd::verif::simulate_time(true);
    let results: Arc<Mutex<Vec<Option<Vec<Value>>>>> = Arc::new(Mutex::new(vec![None; count]));
    let next = Arc::new(AtomicUsize::new(0));
    let base = workdir.join(format!("r{}", std::process::id()));
    let mut handles = vec![];
    for j in 0..jobs {
        let results = results.clone();
        let next = next.clone();
        let dir = base.join(format!("j{j}"));
        let profile = profile.clone();
        handles.push(std::thread::spawn(move || loop {
            let k = next.fetch_add(1, Ordering::SeqCst);
            if k >= count {
                break;
            }
            let evs = vharness::random::run_random(seed.wrapping_mul(1_000_003).wrapping_add(k as u64), k + 1, &profile, &dir);
            // spill to disk at once: a big-window scenario is hundreds of thousands of events
            let part = dir.with_extension(format!("part{k}"));
            {
                let mut w = BufWriter::new(File::create(&part).expect("part file"));
                for ev in &evs {
                    serde_json::to_writer(&mut w, ev).unwrap();
                    w.write_all(b"\n").unwrap();
                }
                w.flush().unwrap();
            }
            results.lock().unwrap()[k] = Some(vec![serde_json::json!({"part": part.to_string_lossy(), "n": evs.len()})]);
        }));
    }
    for h in handles {
        h.join().unwrap();
    }
    let mut out = BufWriter::new(File::create(&args[2]).expect("trace file"));
    let results = results.lock().unwrap();
    let mut n = 0usize;
    for r in results.iter() {
        let meta = &r.as_ref().unwrap()[0];
        let part = meta["part"].as_str().unwrap();
        let mut f = File::open(part).expect("part");
        std::io::copy(&mut f, &mut out).unwrap();
        n += meta["n"].as_u64().unwrap() as usize;
        let _ = std::fs::remove_file(part);
    }
    out.flush().unwrap();
    let _ = std::fs::remove_dir_all(&base);
    println!("scenarios={} events={}", count, n);
}
