//! Shared pieces of the verification harness: payload patterns, file projections,
//! a tiny deterministic PRNG and ndjson helpers.

use serde_json::{json, Value};

pub mod random;
pub mod sim;

/// Deterministic PRNG (splitmix64) so that runs are reproducible from VERIF_SEED.
pub struct Rng(pub u64);

impl Rng {
    pub fn new(seed: u64) -> Rng {
        Rng(seed.wrapping_mul(0x9E3779B97F4A7C15) ^ 0xD1B54A32D192ED03)
    }
    pub fn next(&mut self) -> u64 {
        self.0 = self.0.wrapping_add(0x9E3779B97F4A7C15);
        let mut z = self.0;
        z = (z ^ (z >> 30)).wrapping_mul(0xBF58476D1CE4E5B9);
        z = (z ^ (z >> 27)).wrapping_mul(0x94D049BB133111EB);
        z ^ (z >> 31)
    }
    pub fn below(&mut self, n: u64) -> u64 {
        if n == 0 {
            0
        } else {
            self.next() % n
        }
    }
    pub fn chance(&mut self, num: u64, den: u64) -> bool {
        self.below(den) < num
    }
    pub fn pick<'a, T>(&mut self, xs: &'a [T]) -> &'a T {
        &xs[self.below(xs.len() as u64) as usize]
    }
}

/// Self-describing payload: bytes 0..4 hold `id` (LE), the rest is a function of (id, j).
pub fn payload(id: u32, size: usize) -> Vec<u8> {
    let mut v = Vec::with_capacity(size);
    let idb = id.to_le_bytes();
    for j in 0..size {
        if j < 4 {
            v.push(idb[j]);
        } else {
            v.push(((id as usize).wrapping_mul(131).wrapping_add(j * 7 + 13) & 0xff) as u8);
        }
    }
    v
}

/// Which payload id does `bytes` carry (0 = none / corrupted)?  Needs >= 4 bytes.
pub fn payload_id(bytes: &[u8]) -> u32 {
    if bytes.len() < 4 {
        return 0;
    }
    let id = u32::from_le_bytes([bytes[0], bytes[1], bytes[2], bytes[3]]);
    if id != 0 && payload(id, bytes.len()) == bytes {
        id
    } else {
        0
    }
}

/// Compact id sequence [lo, n, x] = <<lo+1 .. lo+n>> ++ x in canonical form
/// (mirrors CSAppend in spec/Transfer.tla).
#[derive(Clone, Debug, PartialEq, Default)]
pub struct Cs {
    pub lo: i64,
    pub n: i64,
    pub x: Vec<i64>,
}

impl Cs {
    pub fn push(&mut self, id: i64) {
        if self.n == 0 {
            self.lo = id - 1;
            self.n = 1;
        } else if self.x.is_empty() && id == self.lo + self.n + 1 {
            self.n += 1;
        } else {
            self.x.push(id);
        }
    }
    pub fn to_json(&self) -> Value {
        json!({"lo": self.lo, "n": self.n, "x": self.x})
    }
}

/// Projection of a file written by a receiver: the payload ids it contains, in order.
/// Whole `blk`-sized chunks, then one short tail.  Unrecognisable bytes project to id 0.
pub fn project_file(bytes: &[u8], blk: usize) -> Cs {
    let mut cs = Cs::default();
    let mut at = 0;
    while bytes.len() - at >= blk {
        cs.push(payload_id(&bytes[at..at + blk]) as i64);
        at += blk;
    }
    if at < bytes.len() {
        cs.push(payload_id(&bytes[at..]) as i64);
    }
    cs
}

pub fn jstr<'a>(v: &'a Value, k: &str, default: &'a str) -> &'a str {
    v.get(k).and_then(|x| x.as_str()).unwrap_or(default)
}
pub fn jint(v: &Value, k: &str, default: i64) -> i64 {
    v.get(k).and_then(|x| x.as_i64()).unwrap_or(default)
}
pub fn jbool(v: &Value, k: &str, default: bool) -> bool {
    v.get(k).and_then(|x| x.as_bool()).unwrap_or(default)
}
