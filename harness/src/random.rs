//! Seeded random scenarios for the real Worker at the real modulus: a protocol-conformant
//! reference peer behind a faulty network (drop / duplicate / reorder / delay, stray and bogus
//! packets, random sub-timeout timing), for parameters far outside the exhaustive bounds
//! (window sizes up to 65535, more than 65535 blocks, block sizes up to 65464).  The recorded
//! trace is judged by TLC against Trace_Transfer; the generator only guarantees the hypothesis of
//! C04 (never six consecutive failed receives), so the specification demands completion.

use crate::sim::{ack_bytes, data_bytes, error_bytes, oack_bytes, Cfg, Sim};
use crate::{payload, Rng};
use serde_json::{json, Value};
use std::collections::VecDeque;
use std::path::Path;

const TICKS: i64 = 1000; // timeout in ticks (1 tick = 1 ms)

fn pick_w(rng: &mut Rng, big: bool) -> i64 {
    if big {
        *rng.pick(&[65534, 65535, 65535, 1000, 4096])
    } else {
        *rng.pick(&[1, 1, 2, 2, 3, 4, 5, 7, 8, 16, 64])
    }
}

/// Random parameters.  `profile`: "small" | "wrap" | "bigw" | "bigblk"
pub fn random_cfg(rng: &mut Rng, profile: &str, sending: bool) -> Value {
    let (blk, w, nb): (i64, i64, i64) = match profile {
        "wrap" => {
            let w = *rng.pick(&[1, 2, 3, 7, 64, 255, 1000]);
            (8, w, *rng.pick(&[65534, 65535, 65536, 65537, 65538, 65600, 131073]))
        }
        "wrapq" => {
            let w = *rng.pick(&[7, 64, 255]);
            (8, w, *rng.pick(&[65535, 65536, 65537, 65540]))
        }
        "bigw" => {
            let w = pick_w(rng, true);
            (8, w, *rng.pick(&[1, 3, 100, 65534, 65535, 65536, 70000]))
        }
        "bigblk" => (
            *rng.pick(&[1468, 4096, 65464]),
            pick_w(rng, false),
            1 + rng.below(6) as i64,
        ),
        _ => {
            let blk = *rng.pick(&[8, 9, 16, 511, 512, 513]);
            (blk, pick_w(rng, false), 1 + rng.below(12) as i64)
        }
    };
    let lastempty = rng.chance(1, 3);
    let short = if blk > 8 { 4 + rng.below((blk - 4) as u64) as i64 } else { 5 };
    json!({
        "role": if sending { "send" } else { "recv" },
        "M": 65536, "W": w, "NB": if sending { nb } else { 0 },
        // duplicate-packets mode sleeps 1 ms of REAL time per extra copy: only for short transfers
        "R": if profile == "small" && rng.chance(1, 8) { 2 } else { 1 },
        "T": TICKS, "tick_ns": 1_000_000, "chk": sending && rng.chance(1, 3), "clean": rng.chance(3, 4),
        "base0": 0, "lastempty": lastempty, "devfull": false, "blk": blk, "short": short,
        "peer_nb": nb,
    })
}

struct Net {
    drop: u64,  // per mille
    dup: u64,
    swap: u64,
    stray: u64,
    early: u64,
}

fn log_in(sim: &Sim, k: &str, n: i64, dt: i64, extra: Option<(&str, Value)>) {
    let mut ev = json!({"e":"in","k":k,"n":n,"dt":dt});
    if let Some((key, v)) = extra {
        ev[key] = v;
    }
    sim.push_event(ev);
}

/// Drives one transfer of a sending worker against a conformant receiver.
fn drive_sender(sim: &mut Sim, cfg: &Cfg, rng: &mut Rng, net: &Net) {
    let m = cfg.m;
    let mut expected: i64 = 1; // next in-order block the reference receiver wants
    let mut inwin: i64 = 0; // in-order blocks accepted since the last ACK
    let mut pending: VecDeque<u16> = VecDeque::new(); // ACK numbers on their way to the worker
    let mut consec_fail = 0;
    let mut seen = 0usize; // events of the log already processed
    let mut done_recv = false;
    let mut gap_acked = false; // the reference receiver reports a gap once, not once per datagram behind it
    let mut steps: u64 = 0;
    let max_steps = 40 * (cfg.nb as u64 + 10);
    if cfg.chk {
        if !sim.wait_ready() {
            return;
        }
        log_in(sim, "ack", 0, 0, None);
        sim.deliver(ack_bytes(0), 0);
    }
    loop {
        steps += 1;
        if steps > max_steps || !sim.wait_ready() {
            return;
        }
        // what did the worker send since the last input?  pass it through the network to the
        // reference receiver (RFC 1350 / 7440: ACK at window end and on the final block; on a
        // gap, ACK the last block received in order)
        let outs: Vec<Value> = {
            let log = sim.log.lock().unwrap();
            let v = log[seen..].to_vec();
            seen = log.len();
            v
        };
        let mut arriving: Vec<(i64, bool)> = Vec::new(); // (wire number, short?)
        for ev in outs.iter().filter(|e| e["e"] == "out" && e["k"] == "data") {
            let n = ev["n"].as_i64().unwrap();
            let short = ev["sz"] != "full";
            if rng.below(1000) < net.drop {
                continue;
            }
            arriving.push((n, short));
            if rng.below(1000) < net.dup {
                arriving.push((n, short));
            }
        }
        if arriving.len() >= 2 && rng.below(1000) < net.swap {
            let i = rng.below(arriving.len() as u64 - 1) as usize;
            arriving.swap(i, i + 1);
        }
        for (n, short) in arriving {
            if done_recv {
                // dallying receiver: re-acknowledge the final block
                pending.push_back(((expected - 1) % m) as u16);
                continue;
            }
            if n == expected % m {
                gap_acked = false;
                expected += 1;
                inwin += 1;
                if short {
                    done_recv = true;
                    pending.push_back(((expected - 1) % m) as u16);
                    inwin = 0;
                } else if inwin == cfg.w {
                    pending.push_back(((expected - 1) % m) as u16);
                    inwin = 0;
                }
            } else {
                if !gap_acked {
                    pending.push_back(((expected - 1) % m) as u16);
                    gap_acked = true;
                }
                inwin = 0;
            }
        }
        // choose the next input for the worker
        let force_good = consec_fail >= 4;
        if !force_good && rng.below(1000) < net.stray {
            // stray / bogus input that is not a failure of the peer: stale or future ACK
            let bogus = match rng.below(4) {
                0 => (expected - 2).rem_euclid(m),
                1 => (expected + cfg.w + rng.below(3) as i64).rem_euclid(m),
                2 => 0,
                _ => rng.below(65536) as i64,
            };
            let dt = rng.below((cfg.t / 20).max(1) as u64) as i64;
            log_in(sim, "ack", bogus, dt, None);
            sim.deliver(ack_bytes(bogus as u16), dt as u64);
            continue;
        }
        if !force_good && rng.below(1000) < net.early {
            // undecodable datagram or unexpected packet kind before the timeout
            let dt = rng.below(cfg.t as u64) as i64;
            consec_fail += 1;
            if rng.chance(1, 2) {
                log_in(sim, "fail", 0, dt, None);
                sim.deliver(vec![0, 9, 1, 2], dt as u64);
            } else {
                log_in(sim, "stray", 0, dt, None);
                sim.deliver(oack_bytes(), dt as u64);
            }
            continue;
        }
        // the ACK at the head of the queue, unless the network loses it
        let mut delivered = false;
        while let Some(a) = pending.pop_front() {
            if !force_good && rng.below(1000) < net.drop {
                continue;
            }
            let dt = rng.below((cfg.t / 10).max(1) as u64) as i64;
            log_in(sim, "ack", a as i64, dt, None);
            sim.deliver(ack_bytes(a), dt as u64);
            if rng.below(1000) < net.dup {
                pending.push_front(a);
            }
            delivered = true;
            // progress resets the worker's retry counter only if the ACK is in its window; a
            // conformant duplicate is not a failure either
            consec_fail = 0;
            break;
        }
        if !delivered {
            consec_fail += 1;
            log_in(sim, "fail", 0, cfg.t, None);
            sim.fail(cfg.t as u64);
        }
    }
}

/// Drives one transfer of a receiving worker against a conformant sender.
fn drive_receiver(sim: &mut Sim, cfg: &Cfg, rng: &mut Rng, net: &Net, nb: i64) {
    let m = cfg.m;
    let mut base: i64 = 0; // last block acknowledged to the reference sender
    let mut queue: VecDeque<i64> = VecDeque::new(); // absolute indices on their way to the worker
    let mut consec_fail = 0;
    let mut seen = 0usize;
    let mut steps: u64 = 0;
    let max_steps = 60 * (nb as u64 + 10);
    let size_of = |i: i64| -> (&'static str, usize) {
        if i < nb {
            ("full", cfg.blk)
        } else if cfg.lastempty {
            ("empty", 0)
        } else {
            ("short", cfg.short)
        }
    };
    let mut need_send = true;
    loop {
        steps += 1;
        if steps > max_steps || !sim.wait_ready() {
            return;
        }
        // ACKs the worker sent since the last input: cumulative, through the faulty network
        let outs: Vec<Value> = {
            let log = sim.log.lock().unwrap();
            let v = log[seen..].to_vec();
            seen = log.len();
            v
        };
        for ev in outs.iter().filter(|e| e["e"] == "out" && e["k"] == "ack") {
            if rng.below(1000) < net.drop && consec_fail < 4 {
                continue;
            }
            let n = ev["n"].as_i64().unwrap();
            let diff = (n - (base + 1)).rem_euclid(m);
            let outstanding = (nb - base).min(cfg.w);
            if diff < outstanding {
                base += diff + 1;
                queue.clear(); // go-back-N: resume right after the acknowledged block
                need_send = true;
            }
        }
        if base >= nb {
            // everything acknowledged, yet the worker asks for more input (a conformant one has
            // ended): let it time out; the specification will call that out
            log_in(sim, "fail", 0, cfg.t, None);
            sim.fail(cfg.t as u64);
            continue;
        }
        if need_send && queue.is_empty() && base < nb {
            let last = (base + cfg.w).min(nb);
            let mut burst: Vec<i64> = Vec::new();
            for i in (base + 1)..=last {
                if rng.below(1000) < net.drop && consec_fail < 4 {
                    continue;
                }
                burst.push(i);
                if rng.below(1000) < net.dup {
                    burst.push(i);
                }
            }
            if burst.len() >= 2 && rng.below(1000) < net.swap {
                let k = rng.below(burst.len() as u64 - 1) as usize;
                burst.swap(k, k + 1);
            }
            queue.extend(burst);
            need_send = false;
        }
        let force_good = consec_fail >= 4;
        if !force_good && rng.below(1000) < net.stray {
            consec_fail += 1;
            let dt = rng.below((cfg.t / 20).max(1) as u64) as i64;
            if rng.chance(1, 2) {
                log_in(sim, "stray", 0, dt, None);
                sim.deliver(ack_bytes(rng.below(65536) as u16), dt as u64);
            } else {
                log_in(sim, "fail", 0, dt, None);
                sim.deliver(vec![7, 7], dt as u64);
            }
            continue;
        }
        if let Some(i) = queue.pop_front() {
            let (sz, size) = size_of(i);
            let dt = rng.below((cfg.t / 50).max(1) as u64) as i64;
            log_in(sim, "data", i % m, dt, Some(("id", json!(i))));
            {
                // add the size class to the event just logged
                let mut log = sim.log.lock().unwrap();
                let lastev = log.last_mut().unwrap();
                lastev["sz"] = json!(sz);
            }
            sim.deliver(data_bytes((i % m) as u16, &payload(i as u32, size)), dt as u64);
            consec_fail = 0;
        } else {
            // nothing on its way: both sides time out; the reference sender retransmits its window
            consec_fail += 1;
            log_in(sim, "fail", 0, cfg.t, None);
            sim.fail(cfg.t as u64);
            need_send = true;
        }
    }
}

/// One random scenario; returns the recorded events (starting with `cfg`).
pub fn run_random(seed: u64, sid: usize, profile: &str, dir: &Path) -> Vec<Value> {
    let mut rng = Rng::new(seed);
    let sending = rng.chance(1, 2);
    let raw = random_cfg(&mut rng, profile, sending);
    let cfg = Cfg::from_json(&raw);
    let nb = raw["peer_nb"].as_i64().unwrap();
    let calm = profile != "small";
    let net = Net {
        drop: if calm { *rng.pick(&[0, 0, 1]) } else { *rng.pick(&[0, 20, 60, 150]) },
        dup: if calm { *rng.pick(&[0, 1]) } else { *rng.pick(&[0, 20, 80]) },
        swap: if calm { 0 } else { *rng.pick(&[0, 50, 200]) },
        stray: if calm { *rng.pick(&[0, 1]) } else { *rng.pick(&[0, 30, 100]) },
        early: if calm { 0 } else { *rng.pick(&[0, 30]) },
    };
    let mut head = raw.clone();
    head["e"] = json!("cfg");
    head["sid"] = json!(sid);
    head["seed"] = json!(seed);
    head["profile"] = json!(profile);
    let mut sim = Sim::start(cfg.clone(), dir);
    let mut events = vec![head];
    if sending {
        drive_sender(&mut sim, &cfg, &mut rng, &net);
    } else {
        drive_receiver(&mut sim, &cfg, &mut rng, &net, nb);
    }
    // an ERROR from the peer ends a transfer that is still running (covers C07 at random points)
    if !sim.closed && !sim.hung && rng.chance(1, 2) && sim.wait_ready() {
        sim.push_event(json!({"e":"in","k":"err","n":0,"dt":0}));
        sim.deliver(error_bytes(0), 0);
        sim.wait_ready();
    }
    events.extend(sim.finish());
    events
}
