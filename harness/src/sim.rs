//! The real `tftpd::Worker` over a simulated socket and a virtual clock.
//!
//! The harness and the worker thread rendez-vous inside `recv`: when the worker asks for a
//! datagram everything it has sent so far is complete and ordered in the log, so a run is
//! deterministic and independent of machine load.  One event per linearization point:
//!   in   - what the next recv returns (logged by the harness just before delivery)
//!   out  - each Socket::send, with the projection of its payload; for an ACK sent by a
//!          receiver, the projection of the target file *at that instant*
//!   snap - worker scalars immediately before each recv (hook H3)
//!   exit - thread left its closure: outcome (hook H3), file state
//!   end  - the script is exhausted while the worker still waits at recv

use crate::{jbool, jint, jstr, payload, payload_id, project_file};
use serde_json::{json, Value};
use std::error::Error;
use std::fs;
use std::net::SocketAddr;
use std::path::{Path, PathBuf};
use std::sync::mpsc::{channel, Receiver, RecvTimeoutError, Sender};
use std::sync::{Arc, Mutex};
use std::time::Duration;
use tftpd::{verif, Packet, Socket, Worker};

#[derive(Clone, Debug)]
pub struct Cfg {
    pub sending: bool,
    pub m: i64,
    pub w: i64,
    pub nb: i64,
    pub r: i64,
    pub t: i64,
    pub chk: bool,
    pub clean: bool,
    pub base0: i64,
    pub lastempty: bool,
    pub blk: usize,
    pub short: usize,
    pub tick_ns: u64,
    /// receiver only: make the target a symlink to /dev/full so that writes fail
    pub devfull: bool,
    pub raw: Value,
}

impl Cfg {
    pub fn from_json(v: &Value) -> Cfg {
        let blk = jint(v, "blk", 8) as usize;
        Cfg {
            sending: jstr(v, "role", "send") == "send",
            m: jint(v, "M", 65536),
            w: jint(v, "W", 1),
            nb: jint(v, "NB", 1),
            r: jint(v, "R", 1),
            t: jint(v, "T", 2),
            chk: jbool(v, "chk", false),
            clean: jbool(v, "clean", true),
            base0: jint(v, "base0", 0),
            lastempty: jbool(v, "lastempty", false),
            blk,
            short: jint(v, "short", blk as i64 - 3) as usize,
            tick_ns: jint(v, "tick_ns", 1_000_000_000) as u64,
            devfull: jbool(v, "devfull", false),
            raw: v.clone(),
        }
    }
    fn last_size(&self) -> usize {
        if self.lastempty {
            0
        } else {
            self.short
        }
    }
    /// content of absolute block i (1-based) of the file a sender serves
    fn block(&self, i: i64) -> Vec<u8> {
        payload(i as u32, if i < self.nb { self.blk } else { self.last_size() })
    }
}

enum Input {
    Datagram(Vec<u8>, u64),
    Fail(u64),
    Abort,
}

enum Note {
    Ready,
    Closed,
}

struct FileProj {
    path: PathBuf,
    blk: usize,
}

impl FileProj {
    fn project(&self) -> Value {
        match fs::read(&self.path) {
            Ok(bytes) => project_file(&bytes, self.blk).to_json(),
            Err(_) => json!({"lo": -1, "n": -1, "x": []}),
        }
    }
}

struct SimSocket {
    cfg: Arc<Cfg>,
    log: Arc<Mutex<Vec<Value>>>,
    rx: Mutex<Receiver<Input>>,
    notes: Mutex<Sender<Note>>,
    aborted: Mutex<bool>,
    sent_since_input: Mutex<u64>,
    proj: Option<FileProj>,
    muted: Arc<std::sync::atomic::AtomicBool>,
    /// blocks of the unrecorded conformant prefix already played by the socket itself
    ff: Mutex<i64>,
    hs_done: std::sync::atomic::AtomicBool,
}

impl SimSocket {
    fn flush_hook_events(&self) {
        let evs = verif::take();
        if evs.is_empty() || self.muted.load(std::sync::atomic::Ordering::Relaxed) || *self.aborted.lock().unwrap() {
            return;
        }
        let mut log = self.log.lock().unwrap();
        for ev in evs {
            log.push(hook_event_json(&ev));
        }
    }
    fn describe(&self, packet: &Packet) -> Value {
        match packet {
            Packet::Data { block_num, data } => {
                let (i, sz) = if self.cfg.sending {
                    let sz = if data.len() == self.cfg.blk {
                        "full"
                    } else if data.is_empty() {
                        "empty"
                    } else {
                        "short"
                    };
                    let i = if data.len() >= 4 {
                        let id = payload_id(data) as i64;
                        if id >= 1 && id <= self.cfg.nb && self.cfg.block(id) == *data {
                            id
                        } else {
                            0
                        }
                    } else if self.cfg.block(self.cfg.nb) == *data {
                        self.cfg.nb
                    } else {
                        0
                    };
                    (i, sz)
                } else {
                    (0, "na")
                };
                json!({"e":"out","k":"data","n":*block_num,"i":i,"sz":sz})
            }
            Packet::Ack(n) => {
                let mut v = json!({"e":"out","k":"ack","n":*n});
                if let Some(p) = &self.proj {
                    v["file"] = p.project();
                }
                v
            }
            Packet::Error { code, .. } => json!({"e":"out","k":"err","code":*code as u16}),
            Packet::Oack(_) => json!({"e":"out","k":"oack"}),
            Packet::Rrq { .. } => json!({"e":"out","k":"rrq"}),
            Packet::Wrq { .. } => json!({"e":"out","k":"wrq"}),
        }
    }
}

pub fn hook_event_json(ev: &verif::Event) -> Value {
    match ev {
        verif::Event::Snap {
            sending,
            block_number,
            window_len,
            retry_cnt,
            filled,
        } => json!({"e":"snap","s":*sending,"bn":*block_number,"wl":*window_len,"rc":*retry_cnt,"eof":!*filled}),
    }
}

impl Socket for SimSocket {
    fn send(&self, packet: &Packet) -> Result<(), Box<dyn Error>> {
        self.flush_hook_events();
        if *self.aborted.lock().unwrap() {
            return Err("aborted".into());
        }
        {
            let mut cnt = self.sent_since_input.lock().unwrap();
            *cnt += 1;
            let limit = 4 * (self.cfg.w as u64) * (self.cfg.r as u64) + 64;
            if *cnt > limit {
                if *cnt == limit + 1 {
                    self.log.lock().unwrap().push(json!({"e":"flood"}));
                }
                *self.aborted.lock().unwrap() = true;
                return Err("flood".into());
            }
        }
        // the real encoder is part of the path: a packet that does not serialize is not sent
        packet.serialize()?;
        if self.muted.load(std::sync::atomic::Ordering::Relaxed) {
            return Ok(());
        }
        let v = self.describe(packet);
        self.log.lock().unwrap().push(v);
        Ok(())
    }

    fn send_to(&self, packet: &Packet, _to: &SocketAddr) -> Result<(), Box<dyn Error>> {
        self.send(packet)
    }

    fn recv_with_size(&self, size: usize) -> Result<Packet, Box<dyn Error>> {
        self.flush_hook_events();
        if *self.aborted.lock().unwrap() {
            // recording is over; a worker that keeps asking (its retry bound is broken) would
            // spin forever: take the thread down so that it can be joined
            let mut n = self.sent_since_input.lock().unwrap();
            *n += 1;
            if *n > 200 {
                drop(n);
                panic!("verif: worker abandoned after the end of the script");
            }
            return Err("aborted".into());
        }
        *self.sent_since_input.lock().unwrap() = 0;
        // unrecorded conformant prefix (fast-forward to base0), played without the harness:
        // a sender is acknowledged window by window, a receiver is fed blocks 1..base0
        {
            let mut ff = self.ff.lock().unwrap();
            if *ff < self.cfg.base0 {
                if self.cfg.sending && self.cfg.chk && !self.hs_done.swap(true, std::sync::atomic::Ordering::SeqCst) {
                    // the prefix of a transfer with options begins with the acknowledgement of the OACK
                    return Ok(Packet::Ack(0));
                }
                if self.cfg.sending {
                    let target = (*ff + self.cfg.w).min(self.cfg.base0).min(self.cfg.nb);
                    *ff = target;
                    if target == self.cfg.base0 {
                        self.muted.store(false, std::sync::atomic::Ordering::SeqCst);
                    }
                    return Ok(Packet::Ack((target % self.cfg.m) as u16));
                } else {
                    *ff += 1;
                    return Ok(Packet::Data {
                        block_num: (*ff % self.cfg.m) as u16,
                        data: payload(*ff as u32, self.cfg.blk),
                    });
                }
            } else if self.muted.load(std::sync::atomic::Ordering::Relaxed) {
                self.muted.store(false, std::sync::atomic::Ordering::SeqCst);
            }
        }
        let _ = self.notes.lock().unwrap().send(Note::Ready);
        let input = self.rx.lock().unwrap().recv().unwrap_or(Input::Abort);
        *self.sent_since_input.lock().unwrap() = 0;
        match input {
            Input::Abort => {
                *self.aborted.lock().unwrap() = true;
                Err("aborted".into())
            }
            Input::Fail(dt) => {
                verif::advance(Duration::from_nanos(dt));
                Err("timed out".into())
            }
            Input::Datagram(bytes, dt) => {
                verif::advance(Duration::from_nanos(dt));
                // mirrors `impl Socket for UdpSocket`: buffer of size + 4, datagram truncated
                let amt = bytes.len().min(size + 4);
                Ok(Packet::deserialize(&bytes[..amt])?)
            }
        }
    }

    fn recv_from_with_size(&self, size: usize) -> Result<(Packet, SocketAddr), Box<dyn Error>> {
        Ok((self.recv_with_size(size)?, self.remote_addr()?))
    }

    fn remote_addr(&self) -> Result<SocketAddr, Box<dyn Error>> {
        Ok("127.0.0.1:9".parse().unwrap())
    }

    fn set_read_timeout(&mut self, _dur: Duration) -> Result<(), Box<dyn Error>> {
        Ok(())
    }

    fn set_write_timeout(&mut self, _dur: Duration) -> Result<(), Box<dyn Error>> {
        Ok(())
    }
}

impl Drop for SimSocket {
    fn drop(&mut self) {
        self.flush_hook_events();
        let _ = self.notes.lock().unwrap().send(Note::Closed);
    }
}

/// One running worker under simulation.
pub struct Sim {
    pub cfg: Arc<Cfg>,
    pub log: Arc<Mutex<Vec<Value>>>,
    tx: Sender<Input>,
    notes: Receiver<Note>,
    handle: Option<std::thread::JoinHandle<()>>,
    pub path: PathBuf,
    pub closed: bool,
    pub hung: bool,
    muted: Arc<std::sync::atomic::AtomicBool>,
}

const STEP_DEADLINE: Duration = Duration::from_secs(20);

impl Sim {
    /// Creates the file layout in `dir` and starts the real worker.
    pub fn start(cfg: Cfg, dir: &Path) -> Sim {
        let cfg = Arc::new(cfg);
        let _ = fs::remove_dir_all(dir);
        fs::create_dir_all(dir).unwrap();
        let path = dir.join("f.bin");
        if cfg.sending {
            let mut content = Vec::with_capacity((cfg.nb as usize) * cfg.blk);
            for i in 1..=cfg.nb {
                content.extend_from_slice(&cfg.block(i));
            }
            fs::write(&path, &content).unwrap();
        } else if cfg.devfull {
            std::os::unix::fs::symlink("/dev/full", &path).unwrap();
        } else if cfg.nb > 0 {
            // receiver with NB > 0: the target already exists, NB blocks of other content
            let mut content = Vec::new();
            for i in 1..=cfg.nb {
                content.extend_from_slice(&payload(900_000 + i as u32, cfg.blk));
            }
            fs::write(&path, &content).unwrap();
        }
        let log = Arc::new(Mutex::new(Vec::new()));
        let (tx, rx) = channel();
        let (ntx, nrx) = channel();
        let muted = Arc::new(std::sync::atomic::AtomicBool::new(cfg.base0 > 0));
        let sock = SimSocket {
            muted: muted.clone(),
            ff: Mutex::new(0),
            hs_done: std::sync::atomic::AtomicBool::new(false),
            cfg: cfg.clone(),
            log: log.clone(),
            rx: Mutex::new(rx),
            notes: Mutex::new(ntx),
            aborted: Mutex::new(false),
            sent_since_input: Mutex::new(0),
            proj: if cfg.sending || cfg.devfull {
                None
            } else {
                Some(FileProj {
                    path: path.clone(),
                    blk: cfg.blk,
                })
            },
        };
        let worker = Worker::new(
            Box::new(sock),
            path.clone(),
            cfg.clean,
            cfg.blk,
            Duration::from_nanos(cfg.t as u64 * cfg.tick_ns),
            cfg.w as u16,
            cfg.r as u8,
        );
        let handle = if cfg.sending {
            worker.send(cfg.chk)
        } else {
            worker.receive()
        }
        .expect("worker did not start");
        Sim {
            cfg,
            log,
            tx,
            notes: nrx,
            handle: Some(handle),
            path,
            closed: false,
            hung: false,
            muted,
        }
    }

    /// While muted, sends are performed but neither projected nor logged (fast-forward).
    pub fn mute(&self, on: bool) {
        self.muted.store(on, std::sync::atomic::Ordering::SeqCst);
    }

    pub fn is_muted(&self) -> bool {
        self.muted.load(std::sync::atomic::Ordering::SeqCst)
    }

    /// Waits until the worker asks for its next datagram (true) or has dropped its socket (false).
    pub fn wait_ready(&mut self) -> bool {
        if self.closed || self.hung {
            return false;
        }
        match self.notes.recv_timeout(STEP_DEADLINE) {
            Ok(Note::Ready) => true,
            Ok(Note::Closed) => {
                self.closed = true;
                false
            }
            Err(RecvTimeoutError::Timeout) => {
                self.hung = true;
                self.log.lock().unwrap().push(json!({"e":"hang"}));
                false
            }
            Err(RecvTimeoutError::Disconnected) => {
                self.closed = true;
                false
            }
        }
    }

    pub fn push_event(&self, v: Value) {
        self.log.lock().unwrap().push(v);
    }

    pub fn clear_log(&self) {
        self.log.lock().unwrap().clear();
    }

    pub fn log_len(&self) -> usize {
        self.log.lock().unwrap().len()
    }

    pub fn deliver(&self, bytes: Vec<u8>, dt_ticks: u64) {
        let _ = self.tx.send(Input::Datagram(bytes, dt_ticks * self.cfg.tick_ns));
    }

    pub fn deliver_ns(&self, bytes: Vec<u8>, dt_ns: u64) {
        let _ = self.tx.send(Input::Datagram(bytes, dt_ns));
    }

    pub fn fail(&self, dt_ticks: u64) {
        let _ = self.tx.send(Input::Fail(dt_ticks * self.cfg.tick_ns));
    }

    pub fn fail_ns(&self, dt_ns: u64) {
        let _ = self.tx.send(Input::Fail(dt_ns));
    }

    /// Ends the simulation: records `exit` if the worker has left on its own, `end` if it
    /// is still waiting for input (it is then aborted, unrecorded).  Returns the log.
    pub fn finish(mut self) -> Vec<Value> {
        let handle = self.handle.take().unwrap();
        let tid = handle.thread().id();
        if self.closed {
            let joined = handle.join();
            let mut ok = match verif::take_outcome(tid) {
                Some(true) => json!("true"),
                Some(false) => json!("false"),
                None => json!("none"),
            };
            if joined.is_err() {
                ok = json!("panic");
            }
            let exists = fs::symlink_metadata(&self.path).is_ok();
            let mut ev = json!({"e":"exit","ok":ok,"exists":exists});
            if !self.cfg.sending && !self.cfg.devfull {
                ev["file"] = match fs::read(&self.path) {
                    Ok(bytes) => project_file(&bytes, self.cfg.blk).to_json(),
                    Err(_) => json!({"lo": -1, "n": -1, "x": []}),
                };
            }
            self.push_event(ev);
        } else if self.hung {
            // cannot be joined; leave the thread behind
            let _ = self.tx.send(Input::Abort);
            drop(handle);
        } else {
            self.push_event(json!({"e":"end"}));
            let keep = self.log_len();
            let _ = self.tx.send(Input::Abort);
            // the worker retries on the aborted socket until it gives up
            let _ = handle.join();
            let _ = verif::take_outcome(tid);
            self.log.lock().unwrap().truncate(keep);
        }
        let log = std::mem::take(&mut *self.log.lock().unwrap());
        if let Some(dir) = self.path.parent() {
            let _ = fs::remove_dir_all(dir);
        }
        log
    }
}

pub fn ack_bytes(n: u16) -> Vec<u8> {
    vec![0, 4, (n >> 8) as u8, n as u8]
}

pub fn data_bytes(n: u16, payload: &[u8]) -> Vec<u8> {
    let mut v = vec![0, 3, (n >> 8) as u8, n as u8];
    v.extend_from_slice(payload);
    v
}

pub fn error_bytes(code: u16) -> Vec<u8> {
    vec![0, 5, (code >> 8) as u8, code as u8, b'x', 0]
}

/// Every shape of ERROR the decoder accepts (Codec.tla): terminated message, empty message,
/// no terminator, nothing after the code, a message that is not UTF-8.
pub fn error_bytes_variant(code: u16, variant: usize) -> Vec<u8> {
    let mut v = vec![0, 5, (code >> 8) as u8, code as u8];
    match variant % 5 {
        0 => v.extend_from_slice(b"x\0"),
        1 => v.push(0),
        2 => v.extend_from_slice(b"no terminator"),
        3 => {}
        _ => v.extend_from_slice(&[0xff, 0xfe, 0]),
    }
    v
}

pub fn oack_bytes() -> Vec<u8> {
    let mut v = vec![0, 6];
    v.extend_from_slice(b"blksize\x00512\x00");
    v
}

/// Receiver-side payload for an input step.
pub fn input_payload(cfg: &Cfg, id: u32, sz: &str) -> Vec<u8> {
    match sz {
        "full" => payload(id, cfg.blk),
        "short" => payload(id, cfg.short),
        "empty" => Vec::new(),
        "over" => payload(id, cfg.blk + 5),
        _ => payload(id, cfg.blk),
    }
}

/// Runs one script (cfg + steps) on the real worker and returns the recorded events,
/// starting with a `cfg` event.
pub fn run_script(script: &Value, sid: usize, dir: &Path) -> Vec<Value> {
    let cfg = Cfg::from_json(&script["cfg"]);
    let mut head = cfg.raw.clone();
    head["e"] = json!("cfg");
    head["sid"] = json!(sid);
    head["blk"] = json!(cfg.blk);
    head["role"] = json!(if cfg.sending { "send" } else { "recv" });
    head["M"] = json!(cfg.m);
    head["W"] = json!(cfg.w);
    head["NB"] = json!(cfg.nb);
    head["R"] = json!(cfg.r);
    head["T"] = json!(cfg.t);
    head["chk"] = json!(cfg.chk);
    head["clean"] = json!(cfg.clean);
    head["base0"] = json!(cfg.base0);
    head["lastempty"] = json!(cfg.lastempty);
    head["devfull"] = json!(cfg.devfull);
    let mut sim = Sim::start(cfg.clone(), dir);
    let mut events = vec![head];
    let mut pending_ready = false;
    let empty = vec![];
    let steps = script["steps"].as_array().unwrap_or(&empty);
    for (idx, step) in steps.iter().enumerate() {
        if !pending_ready && !sim.wait_ready() {
            break;
        }
        pending_ready = false;
        let k = jstr(step, "k", "fail");
        let dt = jint(step, "dt", 0) as u64;
        let n = jint(step, "n", 0) as u16;
        let mut ev = step.clone();
        ev["e"] = json!("in");
        match k {
            "ack" => {
                sim.push_event(ev);
                sim.deliver(ack_bytes(n), dt);
            }
            "err" => {
                sim.push_event(ev);
                sim.deliver(error_bytes_variant(jint(step, "code", 0) as u16, sid + idx), dt);
            }
            "fail" => {
                sim.push_event(ev);
                // alternate between a genuine timeout and an undecodable datagram when
                // the wait is shorter than the timeout
                if dt as i64 >= cfg.t {
                    sim.fail(dt);
                } else {
                    sim.deliver(vec![9, 9, 9], dt);
                }
            }
            "stray" => {
                sim.push_event(ev);
                if cfg.sending {
                    if idx % 2 == 0 {
                        sim.deliver(oack_bytes(), dt);
                    } else {
                        sim.deliver(data_bytes(n, &[1, 2, 3]), dt);
                    }
                } else if idx % 2 == 0 {
                    sim.deliver(ack_bytes(n), dt);
                } else {
                    sim.deliver(oack_bytes(), dt);
                }
            }
            "data" => {
                let id = jint(step, "id", (idx + 1) as i64) as u32;
                ev["id"] = json!(id);
                let sz = jstr(step, "sz", "full").to_string();
                sim.push_event(ev);
                sim.deliver(data_bytes(n, &input_payload(&cfg, id, &sz)), dt);
            }
            _ => {
                sim.push_event(ev);
                sim.fail(dt);
            }
        }
    }
    if !pending_ready {
        sim.wait_ready();
    }
    events.extend(sim.finish());
    events
}
