"""Real tftpc against real tftpd through a recording UDP proxy (C14).  The proxy sees every
datagram in both directions; from that one recording two worker-level traces are built (the
server's worker as subject, the client's worker as subject) and judged by Trace_Transfer, plus
a `final` event (files, paths, exit, error report) judged by Trace_Interop."""
import os, select, socket, subprocess, threading, time
from . import common as C
from . import net as NET
from . import xfer as X

M = 65536
RUNS = {}      # label -> parameters of the run, for re-examining a stalled one


class Proxy(threading.Thread):
    """One transfer at a time.  Server -> client datagrams are relayed at once.  Client -> server
    datagrams are HELD until the server side has been quiet for `hold` seconds: a worker sends its
    burst (all copies of all blocks of a window) without reading its socket, so an input that
    reaches the server while the burst is still going out is consumed only afterwards - holding
    it makes the order in which the proxy logs datagrams the order in which the server's worker
    sees them.  `log` is in that order; `log_client` is in the order of arrival at the proxy,
    which is the order the client's worker sees."""

    def __init__(self, server_port, host="127.0.0.1", on_packet=None, hold=0.004, react=0.003, hold_data=False):
        super().__init__(daemon=True)
        fam = socket.AF_INET6 if ":" in host else socket.AF_INET
        self.host = host
        self.a = socket.socket(fam, socket.SOCK_DGRAM)      # faces the client
        self.a.bind((host, 0))
        self.b = socket.socket(fam, socket.SOCK_DGRAM)      # faces the server
        self.b.bind((host, 0))
        for s in (self.a, self.b):
            s.setsockopt(socket.SOL_SOCKET, socket.SO_RCVBUF, 8 << 20)
        self.port = self.a.getsockname()[1]
        self.server = (host, server_port)
        self.listener_port = server_port
        self.client = None
        self.log = []          # (direction, bytes, extra) as the server's worker sees them
        self.log_client = []   # ... as the client's worker sees them
        self.on_packet = on_packet
        self.stop_flag = False
        self.last = time.time()
        self.last_s2c = 0.0
        self.hold = hold          # quiet time of the server side before a held datagram goes on
        self.react = react        # time allowed for the server to start reacting to the previous one
        self.hold_data = hold_data  # also serialise DATA (needed only when the server duplicates ACKs)
        self.last_forward = 0.0
        self.held = []

    def run(self):
        while not self.stop_flag:
            timeout = 0.05
            if self.held:
                due = max(self.last_s2c + self.hold, self.last_forward + self.react)
                timeout = max(0.0, min(timeout, due - time.time()))
            r, _, _ = select.select([self.a, self.b], [], [], timeout)
            for s in r:
                try:
                    data, addr = s.recvfrom(70000)
                except OSError:
                    continue
                self.last = time.time()
                if s is self.a:
                    self.client = addr
                    extra = self.on_packet("c2s", data) if self.on_packet else None
                    self.log_client.append(("c2s", data, extra))
                    if len(data) >= 2 and data[1] == 3 and not self.hold_data and not self.held:
                        self.log.append(("c2s", data, extra))      # DATA of a lock-step upload: no ambiguity
                        self.b.sendto(data, self.server)
                    else:
                        self.held.append((data, extra))
                else:
                    if addr[1] != self.listener_port:
                        self.server = addr          # the transfer's own port (multi-port mode)
                    self.last_s2c = time.time()
                    entry = ("s2c", data, self.on_packet("s2c", data) if self.on_packet else None)
                    self.log.append(entry)
                    self.log_client.append(entry)
                    if self.client:
                        self.a.sendto(data, self.client)
            now = time.time()
            if self.held and now >= self.last_s2c + self.hold and now >= self.last_forward + self.react:
                data, extra = self.held.pop(0)       # one at a time: the reaction to it comes before the next
                self.log.append(("c2s", data, extra))
                self.b.sendto(data, self.server)
                self.last_forward = time.time()

    def stop(self):
        self.stop_flag = True
        self.join(1.0)
        self.a.close()
        self.b.close()


def slice_index(content, blk, n, data, near):
    nb = len(content) // blk + 1
    i = n if n >= 1 else M
    best = 0
    while i <= nb:
        if content[(i - 1) * blk:i * blk] == data and (len(data) == blk or i == nb):
            if best == 0 or abs(i - near) < abs(best - near):
                best = i
        i += M
    return best


def size_class(data, blk):
    return "full" if len(data) == blk else ("empty" if not data else "short")


def build_traces(log, direction, content, dup, clean_server, label, log_client=None):
    """-> (server-subject events, client-subject events, negotiated dict) from the proxy log"""
    blk, w, tmo = 512, 1, 5
    oack = False
    for d, b, extra in log:
        if d == "s2c":
            p = NET.parse(b)
            if p["k"] == "oack":
                oack = True
                for o in p["opts"]:
                    val = int("".join(str(x) for x in o["v"]) or "0")
                    if o["o"] == "blksize":
                        blk = val
                    elif o["o"] == "windowsize":
                        w = val
                    elif o["o"] == "timeout":
                        tmo = val
            break
    nb = len(content) // blk + 1
    lastempty = len(content) % blk == 0
    base = {"M": M, "W": w, "T": tmo, "base0": 0, "devfull": False, "blk": blk, "net": True}
    srv, cli = [], []
    if direction == "download":
        srv.append(dict(base, e="cfg", role="send", NB=nb, R=dup + 1, chk=oack, clean=True, lastempty=lastempty, label=label + ":server"))
        cli.append(dict(base, e="cfg", role="recv", NB=0, R=1, chk=False, clean=True, lastempty=False, label=label + ":client"))
    else:
        srv.append(dict(base, e="cfg", role="recv", NB=0, R=dup + 1, chk=False, clean=clean_server, lastempty=False, label=label + ":server"))
        cli.append(dict(base, e="cfg", role="send", NB=nb, R=1, chk=False, clean=True, lastempty=lastempty, label=label + ":client"))
    near = 1
    first_c2s_ack0_skipped = False
    seen_request = False
    for d, b, extra in log:
        p = NET.parse(b)
        if d == "c2s" and not seen_request:
            seen_request = True          # the RRQ / WRQ itself
            continue
        if p["k"] == "oack":
            continue
        if direction == "download":
            if d == "s2c" and p["k"] == "data":
                i = slice_index(content, blk, p["n"], p["payload"], near)
                near = max(near, i)
                sz = size_class(p["payload"], blk)
                srv.append({"e": "out", "k": "data", "n": p["n"], "i": i, "sz": sz})
                cli.append({"e": "in", "k": "data", "n": p["n"], "id": i, "sz": sz, "dt": 0})
            elif d == "c2s" and p["k"] == "ack":
                srv.append({"e": "in", "k": "ack", "n": p["n"], "dt": 0})
                if oack and p["n"] == 0 and not first_c2s_ack0_skipped:
                    first_c2s_ack0_skipped = True      # sent by Client::download, not by its worker
                else:
                    cli.append({"e": "out", "k": "ack", "n": p["n"], "file": extra})
            elif p["k"] == "error":
                (srv if d == "c2s" else cli).append({"e": "in", "k": "err", "n": 0, "dt": 0})
                (cli if d == "c2s" else srv).append({"e": "out", "k": "err", "code": p["code"]})
        else:
            if d == "c2s" and p["k"] == "data":
                i = slice_index(content, blk, p["n"], p["payload"], near)
                near = max(near, i)
                sz = size_class(p["payload"], blk)
                cli.append({"e": "out", "k": "data", "n": p["n"], "i": i, "sz": sz})
                srv.append({"e": "in", "k": "data", "n": p["n"], "id": i, "sz": sz, "dt": 0})
            elif d == "s2c" and p["k"] == "ack":
                if not oack and p["n"] == 0 and not first_c2s_ack0_skipped:
                    first_c2s_ack0_skipped = True      # the listener's plain ACK 0, not the worker's
                    continue
                srv.append({"e": "out", "k": "ack", "n": p["n"], "file": extra})
                cli.append({"e": "in", "k": "ack", "n": p["n"], "dt": 0})
            elif p["k"] == "error":
                (srv if d == "c2s" else cli).append({"e": "in", "k": "err", "n": 0, "dt": 0})
                (cli if d == "c2s" else srv).append({"e": "out", "k": "err", "code": p["code"]})
    srv.append({"e": "quiet"})
    cli.append({"e": "quiet"})
    if log_client is not None and log_client is not log:
        # the client's worker saw the datagrams in the order of arrival at the proxy
        _, cli, _ = build_traces(log_client, direction, content, dup, clean_server, label, None)
    return srv, cli, {"blk": blk, "W": w, "oack": oack}


def run_tftpc(args, cwd, timeout=40):
    env = dict(os.environ)
    env.pop("RUST_BACKTRACE", None)
    try:
        r = subprocess.run([C.repo_bin("tftpc")] + args, cwd=cwd, env=env, capture_output=True, text=True, timeout=timeout)
        return r.returncode, r.stdout, r.stderr
    except subprocess.TimeoutExpired as e:
        return -9, (e.stdout or b"").decode("utf-8", "replace") if isinstance(e.stdout, bytes) else (e.stdout or ""), "TIMEOUT"


def one_run(srv, sb, workdir, direction, remote, content, blk, w, tmo, label, host="127.0.0.1", local_name=None,
            expect_refusal=False, via_proxy=True, hold=0.004, run_timeout=40):
    """Runs tftpc once.  Returns (server events, client events, final event).  A run in which the
    kernel drops datagrams (see `lossy` below) depends on real time and scheduling: if it does not
    end with identical files it is repeated, and only the third failure in a row is returned."""
    for attempt in range(3):
        se, ce, fin = _one_run(srv, sb, workdir, direction, remote, content, blk, w, tmo, label, host, local_name,
                               expect_refusal, via_proxy, hold, run_timeout)
        if fin["same"] or fin["wire_judged"] or expect_refusal or not fin.get("lossy"):
            break
        time.sleep(7 * tmo if tmo <= 2 else 1)      # let the server's worker of the failed run give up first
    return se, ce, fin


def _one_run(srv, sb, workdir, direction, remote, content, blk, w, tmo, label, host, local_name,
             expect_refusal, via_proxy, hold, run_timeout):
    os.makedirs(workdir, exist_ok=True)
    rd = os.path.join(workdir, "rd")
    os.makedirs(rd, exist_ok=True)
    base = os.path.basename(remote.replace("\\", "/"))
    client_file = os.path.join(rd, base) if direction == "download" else os.path.join(workdir, local_name or base)
    server_file = os.path.join(sb.recv, base) if direction == "upload" else None
    for f in os.listdir(rd):
        os.remove(os.path.join(rd, f))
    if direction == "upload":
        with open(client_file, "wb") as f:
            f.write(content)
    negotiated = {"blk": blk}

    def on_packet(d, b):
        # file projection at the instant an ACK passes the proxy
        p = NET.parse(b)
        if p["k"] != "ack":
            return None
        path = client_file if direction == "download" else server_file
        bb = negotiated["blk"]
        try:
            with open(path, "rb") as f:
                return X.project_file(f.read(), bb)
        except OSError:
            return {"lo": -1, "n": -1, "x": []}

    def sniff(d, b):
        p = NET.parse(b)
        if p["k"] == "oack":
            for o in p["opts"]:
                if o["o"] == "blksize":
                    negotiated["blk"] = int("".join(str(x) for x in o["v"]) or "0")
        return on_packet(d, b)

    # A burst larger than a default socket buffer (212 992 bytes of skb truesize) can be dropped in
    # part by the kernel behind the proxy's back: what the proxy recorded as delivered is then not
    # what the worker received, so such a run's wire trace is no evidence - only its final state is
    # judged, and it gets the time that recovery by retransmission needs.
    nb_run = len(content) // blk + 1
    lossy = min(w, nb_run) * (srv.flags["dup"] + 1) * (blk + 800) > 140000
    if lossy:
        # ... and it runs without the proxy: a relay that holds every datagram for milliseconds turns
        # 4 MB windows into a queue that outlasts the sender's timeouts (six in a row: it gives up,
        # rightly), which says nothing about the two programs
        via_proxy = False
        run_timeout = max(run_timeout, min(400, 60 + 3 * tmo * nb_run))
    proxy = Proxy(srv.port, host, on_packet=sniff, hold=hold, react=max(0.003, hold / 2), hold_data=srv.flags["dup"] > 0) if via_proxy else None
    port = proxy.port if proxy else srv.port
    if proxy:
        proxy.start()
    args = [remote if direction == "download" else (local_name or base), "-i", host, "-p", str(port),
            "-b", str(blk), "-w", str(w), "-t", str(tmo)]
    args += ["-d", "-rd", rd] if direction == "download" else ["-u"]
    out_before = srv.mark()
    rc, so, se = run_tftpc(args, workdir, timeout=run_timeout)
    time.sleep(0.05)
    if proxy:
        deadline = time.time() + 1.0
        while time.time() - proxy.last < 0.15 and time.time() < deadline:
            time.sleep(0.02)
        proxy.stop()
    log = proxy.log if proxy else []
    srv_ev, cli_ev = [], []
    refused = any(d == "s2c" and NET.parse(b)["k"] == "error" for d, b, _ in log[:3]) if proxy else ("received error" in (so + se).lower())
    if proxy and not refused and log and not lossy:
        srv_ev, cli_ev, neg = build_traces(log, direction, content, srv.flags["dup"], srv.flags["clean"], label, proxy.log_client)
        # exits: the client process has ended; the server reports on stdout / stderr
        deadline = time.time() + 1.0
        while time.time() < deadline:
            tail = srv.output_since(out_before)
            if ("Sent " in tail or "Received " in tail or "Error " in tail):
                break
            time.sleep(0.02)
        tail = srv.output_since(out_before)
        lines = [l for l in tail.splitlines() if l.startswith(("Sent ", "Received ", "Error "))]
        if len(lines) == 1:
            ok = not lines[0].startswith("Error ")
            ev = {"e": "exit", "ok": "true" if ok else "false", "exists": True}
            if direction == "upload":
                ev["exists"] = os.path.lexists(server_file)
                ev["file"] = on_packet("s2c", NET.ack(0))
            srv_ev.append(ev)
        cok = ("Sent " in so) or ("Received " in so)
        cev = {"e": "exit", "ok": "true" if cok and "Error" not in se else "false", "exists": True}
        if direction == "download":
            cev["exists"] = os.path.lexists(client_file)
            cev["file"] = on_packet("c2s", NET.ack(0))
        cli_ev.append(cev)
    # final state
    got = None
    if direction == "download":
        got = open(client_file, "rb").read() if os.path.isfile(client_file) else None
    else:
        got = open(server_file, "rb").read() if os.path.isfile(server_file) else None
    strays = [x for x in os.listdir(rd) if x != base] if direction == "download" else []
    RUNS[label] = (direction, remote, content, blk, w, tmo, host, local_name, expect_refusal)
    final = {"e": "final", "label": label, "dir": direction, "refused": bool(refused), "expect_refusal": expect_refusal,
             "target_exists": got is not None, "same": got == content, "strays": len(strays),
             "client_reported_error": ("error" in (so + se).lower()), "rc": rc, "timed_out": se == "TIMEOUT",
             "args": args[:1] + args[5:], "wire_judged": bool(srv_ev), "lossy": lossy}
    return srv_ev, cli_ev, final


def client_reaction_runs(rng, n, workdir):
    """tftpc against a scripted model server: records the request it sends and what it does after
    a chosen first reply (Client.tla).  Returns Trace_Client events."""
    os.makedirs(workdir, exist_ok=True)
    rd = os.path.join(workdir, "rd")
    os.makedirs(rd, exist_ok=True)
    events = []
    env = dict(os.environ)
    env.pop("RUST_BACKTRACE", None)
    for k in range(n):
        mode = rng.choice(["download", "upload"])
        blk = rng.choice([8, 512, 1024, 1468, 65464])
        win = rng.choice([1, 2, 7, 64, 65535])
        tmo = rng.choice([1, 5, 255])
        fsize = rng.choice([0, 5, 511, 512, 513, 3000])
        remote = rng.choice(["f.bin", "dir/sub/f.bin", "x"]) if mode == "download" else "up_%d.bin" % k
        for f in os.listdir(rd):
            os.remove(os.path.join(rd, f))
        local = os.path.join(workdir, remote) if mode == "upload" else None
        if local:
            with open(local, "wb") as f:
                f.write(bytes((i * 7) % 251 for i in range(fsize)))
        def oack(pairs):
            b = b"\0\6"
            for o, v in pairs:
                b += o.encode() + b"\0" + str(v).encode() + b"\0"
            return b
        replies = [
            oack([("blksize", blk), ("windowsize", win), ("timeout", tmo), ("tsize", fsize)]),
            oack([("blksize", blk)]), oack([("windowsize", win)]), oack([("tsize", 77)]),
            oack([("blksize", max(8, blk // 2)), ("windowsize", max(1, win // 2))]),
            oack([("blksize", blk * 2 if blk < 30000 else 65464)]),          # more than asked: adopted all the same
            oack([("windowsize", 65536)]), oack([("windowsize", 70000)]), oack([("BLKSIZE", 16), ("unknown", 3)]),
            NET.ack(0), NET.ack(7), NET.error(rng.randrange(8), b"no"), NET.error(1, b""),
            NET.data(1, b"abc"), b"\x09\x09", b"\0\6blksize\0x\0",
        ]
        reply = rng.choice(replies)
        srv = socket.socket(socket.AF_INET, socket.SOCK_DGRAM)
        srv.bind((NET.HOST, 0))
        port = srv.getsockname()[1]
        args = [C.repo_bin("tftpc"), remote, "-i", NET.HOST, "-p", str(port), "-b", str(blk), "-w", str(win), "-t", str(tmo)]
        args += ["-d", "-rd", rd] if mode == "download" else ["-u"]
        pr = subprocess.Popen(args, cwd=workdir, env=env, stdout=subprocess.PIPE, stderr=subprocess.STDOUT)
        srv.settimeout(3.0)
        try:
            req, caddr = srv.recvfrom(70000)
        except socket.timeout:
            pr.kill()
            pr.wait()
            srv.close()
            events.append({"e": "cnorequest", "args": args[1:]})
            continue
        srv.sendto(reply, caddr)
        srv.settimeout(0.6)
        nxt = {"k": "none", "len": 0}
        try:
            b, a = srv.recvfrom(70000)
            p = NET.parse(b)
            if p["k"] == "ack":
                nxt = {"k": "ack0" if p["n"] == 0 else "ack%d" % p["n"], "len": 0}
            elif p["k"] == "data":
                nxt = {"k": "data1" if p["n"] == 1 else "data%d" % p["n"], "len": len(p["payload"])}
            else:
                nxt = {"k": p["k"], "len": 0}
        except socket.timeout:
            pass
        base = os.path.basename(remote)
        if mode == "download" and nxt["k"] == "ack0":
            # ACK 0 is sent by Client::download itself; the file is created by the worker thread right after
            t_end = time.time() + 0.5
            while time.time() < t_end and not os.path.lexists(os.path.join(rd, base)):
                time.sleep(0.01)
        created = mode == "download" and os.path.lexists(os.path.join(rd, base))
        srv.sendto(NET.error(0, b"end of probe"), caddr)
        try:
            out, _ = pr.communicate(timeout=4.0)
        except subprocess.TimeoutExpired:
            pr.kill()
            out, _ = pr.communicate()
        srv.close()
        text = out.decode("utf-8", "replace").lower()
        # the report that matters is the one about the reply, not about our closing ERROR
        reported = ("client received" in text) or ("unexpected" in text) or ("error" in text and nxt["k"] == "none")
        name = remote if mode == "download" else base
        events.append({"e": "crun", "mode": mode, "blk": blk, "win": win, "tmo": tmo, "fsize": fsize if mode == "upload" else 0,
                       "name": NET.codes(name), "reqbytes": NET.codes(req), "reply": NET.codes(reply), "next": nxt,
                       "created": bool(created), "reported": bool(reported)})
    return events
