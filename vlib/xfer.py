"""Model clients against the real tftpd process, recording each transfer as a trace for
Trace_Transfer.tla (the server's worker is the subject; the client is its environment).

Events use the worker-level vocabulary of harness/src/sim.rs:
  cfg   parameters of the transfer as NEGOTIATED ON THE WIRE (W, blk from the OACK), file geometry
  in    a datagram the client sent (ack / data / err) or a silence it imposed (fail, dt in ticks = s)
  out   a datagram the server's worker sent: DATA (n, slice index i, size class) or ACK (n, and the
        projection of the uploaded file read from disk when the ACK arrived)
  quiet nothing more arrived within the quiet interval
  exit  the server reported the end of the transfer on stdout/stderr
There are no snap events (no hooks in the binary).  Datagram order is the order in which the one
driver thread sent / received them; a lock-step protocol makes that the server's order too."""
import os, select, socket, struct, time
from . import net as NET

M = 65536
QUIET = 0.25


def payload(pid, size):
    b = bytearray(size)
    idb = struct.pack("<I", pid & 0xFFFFFFFF)
    for j in range(size):
        b[j] = idb[j] if j < 4 else ((pid * 131 + j * 7 + 13) & 0xFF)
    return bytes(b)


def payload_id(b):
    if len(b) < 4:
        return 0
    pid = struct.unpack("<I", b[:4])[0]
    return pid if pid != 0 and payload(pid, len(b)) == b else 0


def cs_push(cs, pid):
    if cs["n"] == 0:
        cs["lo"], cs["n"] = pid - 1, 1
    elif not cs["x"] and pid == cs["lo"] + cs["n"] + 1:
        cs["n"] += 1
    else:
        cs["x"].append(pid)


def project_file(b, blk):
    cs = {"lo": 0, "n": 0, "x": []}
    at = 0
    while len(b) - at >= blk:
        cs_push(cs, payload_id(b[at:at + blk]))
        at += blk
    if at < len(b):
        cs_push(cs, payload_id(b[at:]))
    return cs


def make_file(nb, blk, last):
    """nb blocks: nb-1 full ones and a final one of `last` bytes (0 <= last < blk)"""
    return b"".join(payload(i, blk if i < nb else last) for i in range(1, nb + 1))


class Client:
    """Base: one UDP endpoint, an event list, helpers."""

    def __init__(self, server, label, sock=None):
        self.server = server
        self.label = label
        if sock is None:
            sock = socket.socket(socket.AF_INET, socket.SOCK_DGRAM)
            sock.bind((NET.HOST, 0))
        try:        # an observer must not lose what the server sent: room for a window of small datagrams
            sock.setsockopt(socket.SOL_SOCKET, socket.SO_RCVBUF, 4 << 20)
        except OSError:
            pass
        self.sock = sock            # a given socket = an endpoint that had a transfer before
        self.out_from = server.mark()   # only what the server reports from now on is about this transfer
        self.addr = self.sock.getsockname()
        self.peer = (NET.HOST, server.port)
        self.events = []
        self.notes = []
        self.done = False
        self.wire_from = set()
        self.quiet = QUIET

    def log(self, **ev):
        self.events.append(ev)

    def recv_some(self, want, quiet=None, stop=None):
        """datagrams until `want` arrived, `stop(parsed)` says so, or `quiet` s of silence"""
        if quiet is None:
            quiet = self.quiet
        got = []
        deadline = time.time() + quiet
        while len(got) < want:
            left = deadline - time.time()
            if left <= 0:
                break
            r, _, _ = select.select([self.sock], [], [], left)
            if not r:
                break
            try:
                b, addr = self.sock.recvfrom(70000)
            except OSError:
                break
            self.wire_from.add(addr[1])
            if self.peer[1] == self.server.port and addr[1] != self.server.port:
                self.peer = addr           # multi-port: the transfer's own port
            p = NET.parse(b)
            got.append(p)
            deadline = time.time() + quiet
            if stop and stop(p):
                break
        return got

    def close(self):
        self.sock.close()


class Download(Client):
    """RRQ; policy decides which ACKs are sent.  policy(client, burst) -> list of inputs, each
    ("ack", n) | ("err",) | ("wait", seconds) ; default: conformant cumulative ACK."""

    def __init__(self, server, label, name, content, opts=(), policy=None, rcfg=None, sock=None):
        super().__init__(server, label, sock)
        self.name, self.content, self.opts, self.policy = name, content, list(opts), policy
        self.blk, self.w, self.tmo = 512, 1, 5
        self.expected = 1           # next in-order block (absolute)
        self.got = bytearray()
        self.started = False
        self.finished_ok = False
        self.steps = 0
        self.rcfg = rcfg or {}

    def geometry(self):
        size = len(self.content)
        nb = size // self.blk + 1
        return nb, (size % self.blk == 0)

    def slice_index(self, n, data):
        """absolute index of the file slice this DATA carries (0 = none)"""
        size = len(self.content)
        nb = size // self.blk + 1
        i = n if n >= 1 else M
        best = 0
        while i <= nb:
            if self.content[(i - 1) * self.blk:i * self.blk] == data and (len(data) == self.blk or i == nb):
                if best == 0 or abs(i - self.expected) < abs(best - self.expected):
                    best = i
            i += M
        return best

    def start(self):
        self.sock.sendto(NET.rq(1, self.name, self.opts), (NET.HOST, self.server.port))
        first = self.recv_some(1, quiet=1.0)
        if not first:
            self.notes.append("noreply")
            self.done = True
            return
        p = first[0]
        chk = False
        burst = []
        if p["k"] == "oack":
            chk = True
            for o in p["opts"]:
                val = int("".join(str(d) for d in o["v"]) or "0")
                if o["o"] == "blksize":
                    self.blk = val
                elif o["o"] == "windowsize":
                    self.w = val
                elif o["o"] == "timeout":
                    self.tmo = val
        elif p["k"] == "data":
            burst = [p]
        else:
            self.notes.append(("refused", p.get("code", -1)))
            self.done = True
            return
        nb, lastempty = self.geometry()
        self.nb = nb
        cfg = {"e": "cfg", "role": "send", "M": M, "W": self.w, "NB": nb, "R": self.server.flags["dup"] + 1,
               "T": self.tmo, "chk": chk, "clean": True, "base0": 0, "lastempty": lastempty, "devfull": False,
               "blk": self.blk, "label": self.label, "net": True}
        cfg.update(self.rcfg)
        self.events.append(cfg)
        self.started = True
        self.pending = burst
        if chk:
            self.send_input(("ack", 0))
        return

    def send_input(self, inp):
        if inp[0] == "ack":
            self.log(e="in", k="ack", n=inp[1] % M, dt=0)
            self.sock.sendto(NET.ack(inp[1] % M), self.peer)
        elif inp[0] == "err":
            self.log(e="in", k="err", n=0, dt=0)
            self.sock.sendto(NET.error(0, b"stop"), self.peer)
        elif inp[0] == "wait":
            # impose silence for `inp[1]` seconds: the worker's receive times out
            self.log(e="in", k="fail", n=0, dt=inp[1])

    def step(self):
        """one receive phase + one send phase"""
        if self.done or not self.started:
            self.done = True
            return
        self.steps += 1
        r = self.server.flags["dup"] + 1
        remaining = self.nb - (self.expected - 1)
        want = max(0, min(self.w, remaining) * r - len(self.pending))
        burst = self.pending + (self.recv_some(want) if want else [])
        self.pending = []
        self.absorb(burst)
        inputs = self.policy(self, burst) if self.policy else [("ack", self.expected - 1)]
        for inp in inputs:
            self.send_input(inp)
            if inp[0] == "wait":
                # whatever the worker retransmits when its timeout fires belongs right here in the trace
                t0 = time.time()
                more = self.recv_some(min(self.w, self.nb - (self.expected - 1)) * r, quiet=inp[1] + 1.5)
                self.retransmit_after = time.time() - t0 - (QUIET if len(more) < min(self.w, self.nb - (self.expected - 1)) * r else 0)
                self.absorb(more)
        if self.expected - 1 >= self.nb and (not self.policy or getattr(self, "policy_done", True)):
            self.finish()
        elif inputs and inputs[-1][0] == "err":
            self.finish()
        elif self.steps > 4 * self.nb + 50:
            self.finish()

    def absorb(self, burst):
        for p in burst:
            if p["k"] == "data":
                i = self.slice_index(p["n"], p["payload"])
                sz = "full" if len(p["payload"]) == self.blk else ("empty" if not p["payload"] else "short")
                self.log(e="out", k="data", n=p["n"], i=i, sz=sz)
                if p["n"] == self.expected % M:
                    self.got += p["payload"]
                    self.expected += 1
            elif p["k"] == "error":
                self.log(e="out", k="err", code=p["code"])
            else:
                self.log(e="out", k=p["k"])

    def finish(self):
        extra = self.recv_some(4)
        for p in extra:
            if p["k"] == "data":
                i = self.slice_index(p["n"], p["payload"])
                sz = "full" if len(p["payload"]) == self.blk else ("empty" if not p["payload"] else "short")
                self.log(e="out", k="data", n=p["n"], i=i, sz=sz)
            else:
                self.log(e="out", k=p["k"], code=p.get("code", 0))
        self.log(e="quiet")
        self.finished_ok = bytes(self.got) == self.content and self.expected - 1 >= self.nb
        self.done = True


class Upload(Client):
    """WRQ; sends blocks 1..nb of `payload(id=i)`; policy may perturb.  Reads the target file on
    disk whenever an ACK arrives."""

    def __init__(self, server, label, name, nb, last, opts=(), target=None, policy=None, rcfg=None, sock=None):
        super().__init__(server, label, sock)
        self.name, self.nb, self.last, self.opts = name, nb, last, list(opts)
        self.blk, self.w, self.tmo = 512, 1, 5
        self.target = target
        self.acked = 0
        self.started = False
        self.policy = policy
        self.rcfg = rcfg or {}
        self.finished_ok = False
        self.steps = 0

    def file_proj(self):
        try:
            with open(self.target, "rb") as f:
                return project_file(f.read(), self.blk)
        except OSError:
            return {"lo": -1, "n": -1, "x": []}

    def start(self):
        self.sock.sendto(NET.rq(2, self.name, self.opts), (NET.HOST, self.server.port))
        first = self.recv_some(1, quiet=1.0)
        if not first:
            self.notes.append("noreply")
            self.done = True
            return
        p = first[0]
        if p["k"] == "oack":
            for o in p["opts"]:
                val = int("".join(str(d) for d in o["v"]) or "0")
                if o["o"] == "blksize":
                    self.blk = val
                elif o["o"] == "windowsize":
                    self.w = val
                elif o["o"] == "timeout":
                    self.tmo = val
        elif not (p["k"] == "ack" and p["n"] == 0):
            self.notes.append(("refused", p.get("code", -1)))
            self.done = True
            return
        cfg = {"e": "cfg", "role": "recv", "M": M, "W": self.w, "NB": 0, "R": self.server.flags["dup"] + 1,
               "T": self.tmo, "chk": False, "clean": self.server.flags["clean"], "base0": 0, "lastempty": False,
               "devfull": False, "blk": self.blk, "label": self.label, "net": True}
        cfg.update(self.rcfg)
        self.events.append(cfg)
        self.started = True

    def block(self, i):
        return payload(i, self.blk if i < self.nb else self.last)

    def step(self):
        if self.done or not self.started:
            self.done = True
            return
        self.steps += 1
        r = self.server.flags["dup"] + 1
        first = self.acked + 1
        lastblk = min(self.acked + self.w, self.nb)
        sends = self.policy(self, first, lastblk) if self.policy else [("data", i) for i in range(first, lastblk + 1)]
        expect_acks = 0
        for s in sends:
            if s[0] == "data":
                i = s[1]
                size = len(self.block(i))
                sz = "full" if size == self.blk else ("empty" if size == 0 else "short")
                self.log(e="in", k="data", n=i % M, id=i, sz=sz, dt=0)
                self.sock.sendto(NET.data(i % M, self.block(i)), self.peer)
                self.burst = getattr(self, "burst", 0) + 1
                if self.burst % 32 == 0:
                    time.sleep(0.001)       # a long window must not overrun the server's socket buffer
            elif s[0] == "err":
                self.log(e="in", k="err", n=0, dt=0)
                self.sock.sendto(NET.error(0, b"stop"), self.peer)
            elif s[0] == "stray":
                self.log(e="in", k="stray", n=0, dt=0)
                self.sock.sendto(NET.ack(s[1] % M), self.peer)
            elif s[0] == "expect":
                expect_acks = s[1]
        if not self.policy:
            expect_acks = 1
        acks = self.recv_some(expect_acks * r) if expect_acks else self.recv_some(8, quiet=0.15)
        for p in acks:
            if p["k"] == "ack":
                self.log(e="out", k="ack", n=p["n"], file=self.file_proj())
                # cumulative: the highest block this number can denote at or below what was sent
                k = self.acked
                for cand in range(self.acked, lastblk + 1):
                    if cand % M == p["n"]:
                        k = cand
                self.acked = max(self.acked, k)
            elif p["k"] == "error":
                self.log(e="out", k="err", code=p["code"])
            else:
                self.log(e="out", k=p["k"])
        if self.acked >= self.nb or any(s[0] == "err" for s in sends) or self.steps > 4 * self.nb + 50:
            self.finish()

    def finish(self):
        for p in self.recv_some(4):
            self.log(e="out", k=p["k"], n=p.get("n", 0), file=self.file_proj()) if p["k"] == "ack" else self.log(e="out", k=p["k"])
        self.log(e="quiet")
        self.finished_ok = self.acked >= self.nb
        self.done = True


def silent_after(blocks, rounds, timeout_s):
    """download policy: conformant for `blocks` blocks, then `rounds` silent intervals"""
    def policy(c, burst):
        if c.expected - 1 >= blocks and getattr(c, "silences", 0) < rounds:
            c.silences = getattr(c, "silences", 0) + 1
            c.policy_done = c.silences >= rounds
            return [("wait", timeout_s)]
        if getattr(c, "silences", 0) >= rounds and rounds >= 6:
            c.done = True
            return []
        return [("ack", c.expected - 1)]
    return policy


def server_outcomes(server, clients, wait=1.0):
    """Matches the server's end-of-transfer lines to clients by endpoint: for each client that got
    as far as a transfer, appends an `exit` event if exactly one line for its address appeared."""
    deadline = time.time() + wait
    need = [c for c in clients if c.started]
    while time.time() < deadline:
        if all(any(l.startswith(("Sent ", "Received ", "Error ")) and l.rstrip().endswith("%s:%d" % c.addr)
                   for l in server.output_since(c.out_from).splitlines()) for c in need):
            break
        time.sleep(0.05)
    for c in need:
        tag = "%s:%d" % c.addr
        out = server.output_since(c.out_from)
        lines = [l for l in out.splitlines() if l.rstrip().endswith(tag) and (l.startswith("Sent ") or l.startswith("Received ") or l.startswith("Error "))]
        if len(lines) == 1:
            ok = not lines[0].startswith("Error ")
            ev = {"e": "exit", "ok": "true" if ok else "false", "exists": True}
            if isinstance(c, Upload):
                ev["exists"] = os.path.lexists(c.target)
                ev["file"] = c.file_proj()
            c.events.append(ev)
        elif len(lines) > 1:
            c.events.append({"e": "exit", "ok": "none", "exists": True})
        else:
            c.events.append({"e": "alive"})


def run_clients(server, clients, rng=None):
    """Starts every client, then interleaves their steps under a seeded scheduler."""
    for c in clients:
        c.start()
    live = [c for c in clients if not c.done]
    while live:
        c = rng.choice(live) if rng else live[0]
        c.step()
        live = [c for c in clients if not c.done]
    server_outcomes(server, clients)
    events = []
    for c in clients:
        events += c.events
        c.close()
    return events
