"""Driver for the real tftpd / tftpc PROCESSES on loopback: sandboxes, model clients, recording
of exchanges as trace events for the TLA+ trace specifications."""
import hashlib, json, os, random, shutil, signal, socket, struct, subprocess, time
from . import common as C

HOST = "127.0.0.1"


def codes(s):
    return list(s if isinstance(s, (bytes, bytearray)) else s.encode())


def free_port(host=HOST):
    s = socket.socket(socket.AF_INET6 if ":" in host else socket.AF_INET, socket.SOCK_DGRAM)
    s.bind((host, 0))
    p = s.getsockname()[1]
    s.close()
    return p


# ---------------------------------------------------------------------------------------
# packets (an encoder / decoder independent of the code under test)
def rq(op, name, opts=(), mode=b"octet"):
    b = struct.pack(">H", op) + bytes(name) + b"\0" + mode + b"\0"
    for k, v in opts:
        b += (k if isinstance(k, bytes) else k.encode()) + b"\0" + (v if isinstance(v, bytes) else str(v).encode()) + b"\0"
    return b


def data(n, payload):
    return struct.pack(">HH", 3, n & 0xFFFF) + payload


def ack(n):
    return struct.pack(">HH", 4, n & 0xFFFF)


def error(code, msg=b"x"):
    return struct.pack(">HH", 5, code) + msg + b"\0"


def parse(b):
    """-> dict describing a datagram received from the server"""
    if len(b) < 2:
        return {"k": "garbage"}
    op = struct.unpack(">H", b[:2])[0]
    if op == 3 and len(b) >= 4:
        return {"k": "data", "n": struct.unpack(">H", b[2:4])[0], "payload": b[4:]}
    if op == 4 and len(b) >= 4:
        return {"k": "ack", "n": struct.unpack(">H", b[2:4])[0]}
    if op == 5 and len(b) >= 4:
        return {"k": "error", "code": struct.unpack(">H", b[2:4])[0], "msg": b[4:].split(b"\0")[0].decode("utf-8", "replace")}
    if op == 6:
        parts = b[2:].split(b"\0")
        opts = []
        for i in range(0, len(parts) - 1, 2):
            opts.append({"o": parts[i].decode("latin1").lower(), "v": [int(c) for c in parts[i + 1].decode("latin1") if c.isdigit()]})
        return {"k": "oack", "opts": opts}
    return {"k": "garbage"}


# ---------------------------------------------------------------------------------------
class Sandbox:
    """<base>/send and <base>/recv (or one shared <base>/root) with known unique contents, plus
    decoys outside them that a traversal would hit."""

    LAYOUT = {
        # relpath: content (None = directory)
        "a": None,
        "a/a": b"content of a/a " * 3,
        "a/b": b"content of a/b!" * 50,          # 750 bytes: first block is full
        "b": b"content of b..." * 40,            # 600 bytes
        "s": b"s",                               # shorter than any upload
        ".b": b"content of dot-b " * 9,           # a dot file next to "b": never to be confused with it
    }
    LINKS = {"ln": "b"}                           # a symbolic link inside the tree, to a file inside the tree

    def __init__(self, base, shared):
        self.base = base
        self.shared = shared
        shutil.rmtree(base, ignore_errors=True)
        os.makedirs(base)
        if shared:
            self.send = self.recv = os.path.join(base, "root")
            self._populate(self.send, "root")
        else:
            self.send = os.path.join(base, "send")
            self.recv = os.path.join(base, "recv")
            self._populate(self.send, "send")
            self._populate(self.recv, "recv")
        # decoys: siblings whose names share the directory's prefix, files in the parent,
        # names from the alphabet right above the served directories
        for rel, content in [("rootx/a", b"decoy rootx/a"), ("sendx/b", b"decoy sendx/b"), ("a", b"decoy parent a"),
                             ("b", b"decoy parent b"), ("outside.txt", b"decoy outside")]:
            p = os.path.join(base, rel)
            os.makedirs(os.path.dirname(p), exist_ok=True)
            with open(p, "wb") as f:
                f.write(content)
        self.base_snapshot = self.snapshot()
        self.contents = {}
        for (root, rel), (kind, digest, size) in self.base_snapshot.items():
            if kind == "file":
                fp = os.path.join(self.base, root, rel) if root != "outside" else os.path.join(self.base, rel)
                with open(fp, "rb") as f:
                    self.contents["%s:%s" % (root, rel)] = f.read()

    def _populate(self, root, tag):
        os.makedirs(root)
        for rel, content in self.LAYOUT.items():
            p = os.path.join(root, rel)
            if content is None:
                os.makedirs(p, exist_ok=True)
            else:
                os.makedirs(os.path.dirname(p), exist_ok=True)
                with open(p, "wb") as f:
                    f.write(("[%s] " % tag).encode() + content)
        for rel, target in self.LINKS.items():
            os.symlink(target, os.path.join(root, rel))

    def rootname(self, path):
        for name in (["root"] if self.shared else ["send", "recv"]):
            r = os.path.join(self.base, name)
            if path == r or path.startswith(r + os.sep):
                return name, os.path.relpath(path, r)
        return "outside", os.path.relpath(path, self.base)

    def snapshot(self):
        snap = {}
        for d, dirs, files in os.walk(self.base):
            for x in dirs:
                root, rel = self.rootname(os.path.join(d, x))
                if rel != ".":
                    snap[(root, rel)] = ("dir", "", 0)
            for x in files:
                p = os.path.join(d, x)
                root, rel = self.rootname(p)
                if os.path.islink(p):
                    snap[(root, rel)] = ("link", os.readlink(p), 0)     # a link is its target's name, not its bytes
                    continue
                try:
                    with open(p, "rb") as f:
                        b = f.read()
                    snap[(root, rel)] = ("file", hashlib.sha1(b).hexdigest(), len(b))
                except OSError:
                    snap[(root, rel)] = ("file", "?", -1)
        return snap

    def entries(self, which):
        """tree of the send / recv directory as the trace spec wants it"""
        rootdir = self.send if which == "send" else self.recv
        name = "root" if self.shared else which
        out = [{"path": [], "kind": "dir", "size": os.stat(rootdir).st_size, "cid": ""}]
        for (root, rel), (kind, digest, size) in sorted(self.base_snapshot.items()):
            if root != name:
                continue
            comps = [codes(c) for c in rel.split(os.sep)]
            fp = os.path.join(rootdir, rel)
            if kind == "link":
                kind = "file" if os.path.isfile(fp) else "dir"
            st = os.stat(fp)
            cid = "%s:%s" % (root, rel) if kind == "file" else ""
            if os.path.islink(fp):
                cid = "%s:%s" % (root, os.path.relpath(os.path.realpath(fp), os.path.realpath(rootdir)))
            out.append({"path": comps, "kind": kind, "size": st.st_size, "cid": cid})
        return out

    def delta(self, upcid=None, upbytes=None):
        """what differs from the base tree; then restore the base tree"""
        now = self.snapshot()
        out = []
        for key in set(now) | set(self.base_snapshot):
            if now.get(key) == self.base_snapshot.get(key):
                continue
            root, rel = key
            recvname = "root" if self.shared else "recv"
            rootlabel = "recv" if root == recvname else root
            cid = "?"
            if key in now and now[key][0] == "file":
                p = os.path.join(self.base, rel) if root == "outside" else os.path.join(self.base, root, rel)
                try:
                    with open(p, "rb") as f:
                        b = f.read()
                except OSError:
                    b = None
                cid = upcid if (upbytes is not None and b == upbytes) else "other:%d" % (len(b) if b is not None else -1)
            elif key not in now:
                cid = "deleted"
            out.append({"root": rootlabel, "path": [codes(c) for c in rel.split(os.sep)], "cid": cid})
        if out:
            self.restore(now)
        return out

    def restore(self, now):
        for key in set(now) | set(self.base_snapshot):
            if now.get(key) == self.base_snapshot.get(key):
                continue
            root, rel = key
            p = os.path.join(self.base, rel) if root == "outside" else os.path.join(self.base, root, rel)
            want = self.base_snapshot.get(key)
            if want is None:
                if os.path.isdir(p) and not os.path.islink(p):
                    shutil.rmtree(p, ignore_errors=True)
                elif os.path.lexists(p):
                    os.remove(p)
            elif want[0] == "link":
                if os.path.lexists(p):
                    os.remove(p)
                os.symlink(want[1], p)
            elif want[0] == "file":
                os.makedirs(os.path.dirname(p), exist_ok=True)
                with open(p, "wb") as f:
                    f.write(self.contents["%s:%s" % (root, rel)])
            else:
                os.makedirs(p, exist_ok=True)

    def cid_of_payload(self, payload, which="send"):
        """which served file does this first block come from?"""
        name = "root" if self.shared else which
        hits = [cid for cid, b in self.contents.items() if b[:len(payload)] == payload and (len(payload) == min(len(b), 512))]
        own = [c for c in hits if c.startswith(name + ":")]
        if len(own) == 1:
            return own[0]
        if hits:
            return hits[0]
        return "unknown"


class Server:
    """A tftpd child process in a sandbox."""

    def __init__(self, sandbox, single=False, ro=False, ow=False, clean=True, dup=0, extra=(), host=HOST, rd_only=False):
        self.sb = sandbox
        self.host = host
        self.flags = {"single": single, "ro": ro, "ow": ow, "clean": clean, "shared": sandbox.shared, "dup": dup}
        self.port = free_port(host)
        args = [C.repo_bin("tftpd"), "-i", host, "-p", str(self.port)]
        if sandbox.shared:
            args += ["-d", sandbox.send]
        elif rd_only:
            # only -d and -rd: the send directory must fall back to -d
            args += ["-rd", sandbox.recv, "-d", sandbox.send]
        else:
            args += ["-d", sandbox.base, "-sd", sandbox.send, "-rd", sandbox.recv]
        if single:
            args.append("-s")
        if ro:
            args.append("-r")
        if ow:
            args.append("--overwrite")
        if not clean:
            args.append("--keep-on-error")
        if dup:
            args += ["--duplicate-packets", str(dup)]
        args += list(extra)
        self.outpath = os.path.join(sandbox.base, "..", "tftpd-%d.out" % self.port)
        self.out = open(self.outpath, "wb")
        # stderr apart: the server writes an eprintln! in several pieces, which would interleave with
        # the listener's println! lines if both went to one file
        self.errpath = self.outpath + ".err"
        self.err = open(self.errpath, "wb")
        env = dict(os.environ)
        env.pop("RUST_BACKTRACE", None)
        self.proc = subprocess.Popen(args, stdout=self.out, stderr=self.err, env=env, cwd=sandbox.base)
        # wait until it answers: a read request for a file that is not there gets ERROR 1
        deadline = time.time() + 10
        s = socket.socket(socket.AF_INET6 if ":" in host else socket.AF_INET, socket.SOCK_DGRAM)
        s.settimeout(0.2)
        ok = False
        while time.time() < deadline and self.proc.poll() is None:
            try:
                s.sendto(SENTINEL, (host, self.port))
                s.recvfrom(2048)
                ok = True
                break
            except (socket.timeout, ConnectionRefusedError, OSError):
                time.sleep(0.02)
        s.close()
        if not ok:
            raise C.ToolError("tftpd did not start: %s" % self.output()[-500:])

    def alive(self):
        return self.proc.poll() is None

    def exit_status(self):
        return self.proc.poll()

    def stop(self):
        if self.proc.poll() is None:
            self.proc.kill()
        self.proc.wait()
        self.out.close()
        self.err.close()

    def _read(self, path):
        with open(path, "rb") as f:
            return f.read().decode("utf-8", "replace")

    def output(self):
        """everything the server has written: stdout, then stderr"""
        return self._read(self.outpath) + self._read(self.errpath)

    def mark(self):
        """a position in the server's output; see output_since"""
        return (os.path.getsize(self.outpath), os.path.getsize(self.errpath))

    def output_since(self, mark):
        with open(self.outpath, "rb") as f:
            f.seek(mark[0])
            a = f.read()
        with open(self.errpath, "rb") as f:
            f.seek(mark[1])
            b = f.read()
        return a.decode("utf-8", "replace") + b.decode("utf-8", "replace")

    def cfg_event(self, **more):
        ev = {"e": "cfg"}
        ev.update(self.flags)
        ev["ts"] = self.sb.entries("send")
        ev["tr"] = self.sb.entries("recv")
        ev.update(more)
        return ev


SENTINEL = rq(1, b"\x01no-such-file\x01")
LAST = {"sentinel_answered": True}     # did the listener answer anything at all in the last exchange?


def recv_reply(sock, timeout):
    sock.settimeout(timeout)
    try:
        b, addr = sock.recvfrom(70000)
        return b, addr
    except socket.timeout:
        return None, None
    except ConnectionRefusedError:
        return None, "refused"


def first_reply(server, reqbytes, grace, patient=False, a_sock=None):
    """Sends the request from a fresh endpoint A and a sentinel (a read request for a file that does
    not exist, which a live listener always answers with ERROR 1) from a second endpoint B right behind it.  The listener is one
    thread, so once B has its answer the listener has finished with the request: anything A
    still gets can only come from a worker thread, for which `grace` seconds are allowed.
    Returns (socket A, reply bytes or None, source address)."""
    import select
    if a_sock is not None:
        a = a_sock          # an endpoint with a history (it had a transfer before)
    else:
        a = socket.socket(socket.AF_INET, socket.SOCK_DGRAM)
        a.bind((HOST, 0))
    bsock = socket.socket(socket.AF_INET, socket.SOCK_DGRAM)
    bsock.bind((HOST, 0))
    a.sendto(reqbytes, (HOST, server.port))
    bsock.sendto(SENTINEL, (HOST, server.port))
    deadline = time.time() + (3.0 if patient else 1.0)
    sentinel_at = None
    reply = (None, None)
    while True:
        now = time.time()
        limit = deadline if sentinel_at is None else min(deadline, sentinel_at + grace)
        if now >= limit:
            break
        r, _, _ = select.select([a, bsock], [], [], limit - now)
        if a in r:
            try:
                reply = a.recvfrom(70000)
            except OSError:
                reply = (None, None)
            break
        if bsock in r:
            try:
                bsock.recvfrom(2048)
            except OSError:
                pass
            sentinel_at = time.time()
    bsock.close()
    LAST["sentinel_answered"] = sentinel_at is not None or reply[0] is not None
    return a, reply[0], reply[1]


def exchange(server, reqbytes, sid, complete_uploads=True, patient=False, track=True, a_sock=None):
    """One datagram to the listening port from a fresh endpoint; first reply; for an accepted
    upload, one short block; then the change of the sandbox.  Returns the trace event."""
    sb = server.sb
    sock, b, addr = first_reply(server, reqbytes, (patient if isinstance(patient, float) else 1.5) if patient else 0.03, bool(patient), a_sock)
    ev = {"e": "req", "sid": sid, "bytes": codes(reqbytes[:516]), "known": False, "tried": False, "completed": False,
          "up": "", "delta": [], "probe": False}
    upbytes = None
    if b is None:
        ev["reply"] = {"k": "none"}
        ev["from"] = "na"
    else:
        r = parse(b)
        ev["from"] = "listener" if addr[1] == server.port else "worker"
        if r["k"] == "data":
            ev["reply"] = {"k": "data", "n": r["n"], "len": len(r["payload"]), "cid": sb.cid_of_payload(r["payload"])}
            sock.sendto(error(0, b"probe done"), addr)
            time.sleep(0.02)        # whatever ending the probe does to the tree belongs to this exchange
        elif r["k"] in ("ack", "oack"):
            ev["reply"] = {"k": r["k"], "n": r.get("n", 0)} if r["k"] == "ack" else {"k": "oack", "opts": r["opts"]}
            op = struct.unpack(">H", reqbytes[:2])[0] if len(reqbytes) >= 2 else 0
            if op == 2 and complete_uploads:
                upcid = "U%d" % sid
                upbytes = ("<%s>" % upcid).encode()[:7]
                ev["tried"] = True
                ev["up"] = upcid
                if ev["from"] == "worker" and a_sock is None:
                    sock.connect(addr)      # a vanished worker then shows as ECONNREFUSED at once
                for tmo in ((1.0, 3.0) if patient else (0.5, 1.5)):
                    try:
                        if ev["from"] == "worker" and a_sock is None:
                            sock.send(data(1, upbytes))
                        else:
                            sock.sendto(data(1, upbytes), addr)
                    except OSError:
                        break
                    b2, a2 = recv_reply(sock, tmo)
                    if a2 == "refused":
                        break
                    if b2 is not None:
                        r2 = parse(b2)
                        if r2 == {"k": "ack", "n": 1}:
                            ev["completed"] = True
                        # an ERROR (single-port: the route to the worker is dead) also ends it
                        break
            elif op == 1:
                sock.sendto(error(0, b"probe done"), addr)
                time.sleep(0.02)
        elif r["k"] == "error":
            ev["reply"] = {"k": "error", "code": r["code"]}
        else:
            ev["reply"] = {"k": "garbage"}
    if a_sock is None:
        sock.close()
    ev["delta"] = sb.delta(ev["up"], upbytes) if track else []
    return ev


def write_trace(path, events):
    with open(path, "w") as f:
        for ev in events:
            f.write(json.dumps(ev, separators=(",", ":")) + "\n")
