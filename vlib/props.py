"""Per-property decision procedures (DESIGN.md section 6)."""
import json, os
from . import common as C
from . import worker as W


def worker_families(res, quick, thorough):
    fams = quick if res.tier == "quick" else thorough
    for f in fams:
        W.run_family(res, f)
    res.assumptions += [
        "worker driven through the public Socket trait by a simulated socket; virtual clock via hook H2",
        "TLC-generated scripts cover every input transition of the bounded open model; beyond the bounds only sampled",
    ]


def c01(res):
    worker_families(res, ["MC_SendCoreQuick"], ["MC_SendCoreFull", "MC_SendDup", "MC_SendWrapReal"])


def c02(res):
    worker_families(res, ["MC_RecvCoreQuick"], ["MC_RecvCoreFull", "MC_RecvDup", "MC_RecvWrapReal"])


def c07(res):
    worker_families(res, ["MC_SendCoreQuick", "MC_RecvCoreQuick"], ["MC_SendCoreFull", "MC_RecvCoreFull"])


def c04(res):
    worker_families(res, ["MC_SendCoreQuick", "MC_RecvCoreQuick"], ["MC_SendCoreFull", "MC_RecvCoreFull"])


def c08(res):
    worker_families(res, ["MC_SendCoreQuick", "MC_RecvCoreQuick", "MC_SendBigWShort", "MC_RecvBigW"],
                    ["MC_SendCoreFull", "MC_RecvCoreFull", "MC_SendBigWShort", "MC_RecvBigW", "MC_SendBigWFull"])


def c13(res):
    worker_families(res, ["MC_RecvCoreQuick", "MC_RecvDevfull"], ["MC_RecvCoreFull", "MC_RecvDevfull"])


def c15(res):
    W.model_check(res, "MC_SendWrapSmall")
    W.model_check(res, "MC_RecvWrapSmall")
    worker_families(res, ["MC_SendWrapReal", "MC_RecvWrapReal"],
                    ["MC_SendWrapRealDeep", "MC_RecvWrapRealDeep", "MC_SendBigWFull"])


def c16(res):
    worker_families(res, ["MC_SendDup", "MC_RecvDup"], ["MC_SendDup", "MC_RecvDup"])


CHECKS = {"C01": c01, "C02": c02, "C04": c04, "C07": c07, "C08": c08, "C13": c13, "C15": c15, "C16": c16}


def setup():
    C.build_harness(("wsim",))
    for f in ["MC_SendCoreQuick", "MC_RecvCoreQuick"]:
        W.generate(f)
    return 0


def replay_file(path):
    obj = json.load(open(path))
    print(json.dumps(obj.get("description")))
    return 0
