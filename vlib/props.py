"""Per-property decision procedures (DESIGN.md section 6)."""
import json, os
from . import common as C
from . import worker as W


def worker_families(res, quick, thorough):
    fams = quick if res.tier == "quick" else thorough
    for f in fams:
        W.run_family(res, f)
    res.assumptions += [
        "worker driven through the public Socket trait by a simulated socket; virtual clock via hook H2",
        "TLC-generated scripts cover every input transition of the bounded open model; beyond the bounds only sampled",
    ]


def c01(res):
    worker_families(res, ["MC_SendCoreQuick", "MC_SendWrapReal"], ["MC_SendCoreFull", "MC_SendDup", "MC_SendWrapRealDeep"])


def c02(res):
    worker_families(res, ["MC_RecvCoreQuick", "MC_RecvWrapReal"], ["MC_RecvCoreFull", "MC_RecvDup", "MC_RecvWrapRealDeep"])


def c07(res):
    worker_families(res, ["MC_SendCoreQuick", "MC_RecvCoreQuick"], ["MC_SendCoreFull", "MC_RecvCoreFull"])


def c04(res):
    worker_families(res, ["MC_SendCoreQuick", "MC_RecvCoreQuick"], ["MC_SendCoreFull", "MC_RecvCoreFull"])


def c08(res):
    worker_families(res, ["MC_SendCoreQuick", "MC_RecvCoreQuick", "MC_SendBigWShort", "MC_RecvBigW"],
                    ["MC_SendCoreFull", "MC_RecvCoreFull", "MC_SendBigWShort", "MC_RecvBigW", "MC_SendBigWFull"])


def c13(res):
    worker_families(res, ["MC_RecvCoreQuick", "MC_RecvDevfull"], ["MC_RecvCoreFull", "MC_RecvDevfull"])


def c15(res):
    W.model_check(res, "MC_SendWrapSmall")
    W.model_check(res, "MC_RecvWrapSmall")
    worker_families(res, ["MC_SendWrapReal", "MC_RecvWrapReal"],
                    ["MC_SendWrapRealDeep", "MC_RecvWrapRealDeep", "MC_SendBigWFull"])


def c16(res):
    worker_families(res, ["MC_SendDup", "MC_RecvDup"], ["MC_SendDup", "MC_RecvDup"])


def short_prefix_vectors(v):
    return len(v["b"]) in (2, 4)


def u16_file():
    path = os.path.join(C.GEN, "u16.vectors.ndjson")
    if not os.path.exists(path):
        os.makedirs(C.GEN, exist_ok=True)
        with open(path, "w") as f:
            f.write('{"u16":[0,65535]}\n')
    return path


def codec(res):
    """C10 and C11 share the enumerations; each files only the deviations labelled with its id."""
    q = res.tier == "quick"
    W.run_family(res, "MC_Codec_BytesQuick" if q else "MC_Codec_BytesFull", layer=W.CODEC)
    W.run_family(res, "MC_Codec_DeepQuick" if q else "MC_Codec_DeepFull", layer=W.CODEC)
    W.run_family(res, "MC_Codec_Prefix", select=short_prefix_vectors if q else None, layer=W.CODEC)
    W.run_family(res, "MC_Codec_PacketsQuick" if q else "MC_Codec_PacketsFull", layer=W.CODEC)
    W.run_vectors(res, u16_file(), "u16-conversions", layer=W.CODEC)
    res.assumptions += ["'never reads outside the buffer' is observed as 'never panics' (safe Rust)",
                        "option names are compared ASCII-case-insensitively in the specification; Unicode characters whose lowercase is ASCII (KELVIN SIGN) are outside the enumerated alphabet",
                        "ERROR without a terminated or well-formed message decodes with the message '(no message)' (the code's documented behaviour, covered by a baseline test)"]


def c17(res):
    fams = ["MC_Cli_STokQuick", "MC_Cli_SItemQuick", "MC_Cli_CTokQuick", "MC_Cli_CItemQuick"] if res.tier == "quick" \
        else ["MC_Cli_STokFull", "MC_Cli_SItemFull", "MC_Cli_CTokFull", "MC_Cli_CItemFull"]
    for f in fams:
        W.run_family(res, f, layer=W.CLI)
    res.assumptions += ["-h/--help is excluded (it terminates the process)",
                        "what a token means as a value (address, port, existing directory, u8) is tabulated over a fixed token universe",
                        "the client treats every non-flag token, including argv[0], as the file name (recorded behaviour)"]


def c18(res):
    fams = ["MC_Window_ReadersQuick", "MC_Window_MixedQuick"] if res.tier == "quick" else \
           ["MC_Window_ReadersFull", "MC_Window_MixedFull"]
    for f in fams:
        W.run_family(res, f, layer=W.WINDOW)
    res.assumptions += ["files are regular files on a local file system; a reader's file is opened read-only, a writer's is created write-only (as the worker does)",
                        "fill() after end of file yields further empty pieces (recorded behaviour; the property constrains the bytes handed out)"]


CHECKS = {"C17": c17, "C10": codec, "C11": codec, "C18": c18, "C01": c01, "C02": c02, "C04": c04, "C07": c07, "C08": c08, "C13": c13, "C15": c15, "C16": c16}


QUICK_FAMILIES = [
    ("MC_TransferOpen", ["MC_SendCoreQuick", "MC_RecvCoreQuick", "MC_SendBigWShort", "MC_RecvBigW", "MC_RecvDevfull",
                         "MC_SendWrapSmall", "MC_RecvWrapSmall", "MC_SendWrapReal", "MC_RecvWrapReal",
                         "MC_SendDup", "MC_RecvDup"]),
    ("MC_Window", ["MC_Window_ReadersQuick", "MC_Window_MixedQuick"]),
    ("MC_Codec", ["MC_Codec_BytesQuick", "MC_Codec_DeepQuick", "MC_Codec_Prefix", "MC_Codec_PacketsQuick"]),
    ("MC_Cli", ["MC_Cli_STokQuick", "MC_Cli_SItemQuick", "MC_Cli_CTokQuick", "MC_Cli_CItemQuick"]),
]


def setup():
    """Builds the harness and pre-generates (model-checks) every configuration the quick tier
    uses; generation is cached by the hash of spec/, which does not change when /repo does."""
    C.build_harness(("wsim", "pure"))
    for module, fams in QUICK_FAMILIES:
        for f in fams:
            meta, _ = W.generate(f, module=module)
            C.log("generated", f, meta)
    return 0


def replay_file(path):
    obj = json.load(open(path))
    print(json.dumps(obj.get("description")))
    return 0
