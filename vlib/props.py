"""Per-property decision procedures (DESIGN.md section 6)."""
import json, os
from . import common as C
from . import worker as W
from . import net as NET
from . import xfer as X
from . import interop as IO
from . import extras as EX
import random, re, shutil, time


RANDOM_QUICK = [("small", 250)]
RANDOM_THOROUGH = [("small", 4000), ("bigblk", 60), ("bigw", 8), ("wrap", 8)]


def worker_families(res, quick, thorough, random_legs=True):
    fams = quick if res.tier == "quick" else thorough
    for f in fams:
        W.run_family(res, f)
    if random_legs:
        for profile, count in (RANDOM_QUICK if res.tier == "quick" else RANDOM_THOROUGH):
            W.run_random(res, profile, count)
    res.assumptions += [
        "worker driven through the public Socket trait by a simulated socket; virtual clock via hook H2",
        "TLC-generated scripts cover every input transition of the bounded open model; beyond the bounds only sampled",
    ]


def c01(res):
    worker_families(res, ["MC_SendCoreQuick", "MC_SendDup", "MC_SendWrapReal"], ["MC_SendCoreFull", "MC_SendDup", "MC_SendWrapRealDeep"])
    file_scenario_deviations(res, boundary_transfers(res, "download", "c01-boundary"), "c01-boundary",
                             "download through the real process is not a behaviour of the sender specification")


def big_flush_script():
    """a receiver whose window holds more pieces than one vectored write can take (IOV_MAX = 1024)"""
    w = 1100
    steps = [{"k": "data", "n": i, "id": i, "sz": "full", "dt": 0} for i in range(1, w + 1)]
    steps += [{"k": "data", "n": w + 1, "id": w + 1, "sz": "full", "dt": 0}, {"k": "data", "n": w + 5, "id": 5000, "sz": "full", "dt": 0},
              {"k": "data", "n": w + 2, "id": w + 2, "sz": "short", "dt": 0}]
    cfg = {"role": "recv", "M": 65536, "W": w, "NB": 0, "R": 1, "T": 2, "chk": False, "clean": True, "base0": 0,
           "lastempty": False, "devfull": False}
    return write_vectors("recv-bigflush", [{"cfg": cfg, "steps": steps}])


def big_buffer_scripts():
    """receivers whose window buffers a megabyte and more (windowsize x blksize): the cumulative
    acknowledgement is due after exactly windowsize in-order blocks, whatever their total size"""
    out = []
    for blk, w in ((65464, 17), (16384, 65), (1468, 720), (512, 2049)):
        steps = [{"k": "data", "n": i, "id": i, "sz": "full", "dt": 0} for i in range(1, w + 1)]
        steps += [{"k": "data", "n": w + 1, "id": w + 1, "sz": "full", "dt": 0}, {"k": "data", "n": w + 2, "id": w + 2, "sz": "short", "dt": 0}]
        cfg = {"role": "recv", "M": 65536, "W": w, "NB": 0, "R": 1, "T": 2, "chk": False, "clean": True, "base0": 0,
               "lastempty": False, "devfull": False, "blk": blk, "short": blk - 3}
        out.append({"cfg": cfg, "steps": steps})
    return write_vectors("recv-bigbuffer", out)


def c02(res):
    res.extra["unbounded_inductive_invariant"] = EX.receiver_inductive()
    W.run_vectors(res, big_flush_script(), "recv-bigflush", layer=W.WORKER)
    W.run_vectors(res, big_buffer_scripts(), "recv-bigbuffer", layer=W.WORKER)
    worker_families(res, ["MC_RecvCoreQuick", "MC_RecvPrefill", "MC_RecvWrapReal"], ["MC_RecvCoreFull", "MC_RecvPrefill", "MC_RecvDup", "MC_RecvWrapRealDeep"])
    file_scenario_deviations(res, boundary_transfers(res, "upload", "c02-boundary"), "c02-boundary",
                             "upload through the real process (real socket receive path) is not a behaviour of the receiver specification")


def c07(res):
    slow = BackgroundProbe(silent_peer_scenarios, "c07-silent-default", None, default_timeout=True)
    worker_families(res, ["MC_SendCoreQuick", "MC_RecvCoreQuick"], ["MC_SendCoreFull", "MC_RecvCoreFull"])
    note = "a silent peer does not lead to the bounded give-up the specification prescribes"
    for single in (False, True):
        tag = "c07-silent-%s" % ("single" if single else "multi")
        file_scenario_deviations(res, silent_peer_scenarios(tag, None, single=single), tag, note)
    for single in (False, True):
        tag = "c07-peer-error-%s" % ("single" if single else "multi")
        file_scenario_deviations(res, peer_error_scenarios(tag, single), tag, "the transfer does not end at once when the peer sends ERROR")
    file_scenario_deviations(res, slow.join(), "c07-silent-default", note)


def c04(res):
    # conformant peer + faulty network: the two workers of the specification against each other
    for name in (["MC_ClosedQuick"] if res.tier == "quick" else ["MC_ClosedFull", "MC_ClosedDeep"]):
        W.model_check(res, name, module="MC_TransferClosed")
    worker_families(res, ["MC_SendCoreQuick", "MC_RecvCoreQuick"], ["MC_SendCoreFull", "MC_RecvCoreFull"])
    # the wiring of the negotiated timeout into the real process: two consecutive losses (far below
    # the budget) must be survived by retransmission after each timeout
    sb, srv = with_server("c04-loss", shared=True, ow=True)
    try:
        content = X.make_file(4, 8, 5)
        open(os.path.join(sb.send, "loss.bin"), "wb").write(content)

        def two_silences(c, burst):
            n = getattr(c, "silences", 0)
            if c.expected > 1 and n < 2:
                c.silences = n + 1
                return [("wait", 1), ("ack", c.expected - 1)] if n == 1 else [("wait", 1)]
            return [("ack", c.expected - 1)]
        d = X.Download(srv, "c04-two-losses", b"loss.bin", content, opts=[("blksize", 8), ("timeout", 1)], policy=two_silences)
        events = X.run_clients(srv, [d])
    finally:
        drop_server(sb, srv)
    file_scenario_deviations(res, events, "c04-two-losses", "two consecutive lost acknowledgements are not survived by retransmission")
    # sustained partial loss, end to end (D8): a receiver that gets the head of every window and loses
    # its tail must go on - no two receive attempts in a row fail.  As a script for the real Worker ...
    rounds, steps = 9, []
    for r in range(rounds):
        steps += [{"k": "data", "n": 3 * r + i, "id": 3 * r + i, "sz": "full", "dt": 0} for i in (1, 2, 3)]
        steps += [{"k": "fail", "n": 0, "dt": 2}, {"k": "data", "n": 3 * r + 1, "id": 3 * r + 1, "sz": "full", "dt": 0}]
    steps += [{"k": "data", "n": 3 * rounds + 1, "id": 3 * rounds + 1, "sz": "short", "dt": 0}]
    cfg = {"role": "recv", "M": 65536, "W": 7, "NB": 0, "R": 1, "T": 2, "chk": False, "clean": True, "base0": 0,
           "lastempty": False, "devfull": False}
    W.run_vectors(res, write_vectors("recv-lossy-tail", [{"cfg": cfg, "steps": steps}]), "recv-lossy-tail", layer=W.WORKER)
    # ... and with the real binaries, where the kernel does the dropping: 7 x 65 464 bytes do not fit
    # the server's default socket buffer.  Only the final state is judged (the proxy cannot see drops).
    # (real time and a real kernel: one_run repeats such a run and returns only the third failure in a row)
    sb, srv = with_server("c04-lossy-window", shared=True, ow=True)
    finals = []
    try:
        content = X.make_file(24, 65464, 100)
        se, ce, fin = IO.one_run(srv, sb, os.path.join(os.path.dirname(sb.base), "client"), "upload", "lossy.bin", content,
                                 65464, 7, 1, "c04-lossy-upload-b65464-w7-n24", via_proxy=False, run_timeout=120)
        finals.append(fin)
    finally:
        drop_server(sb, srv)
    probe = C.Result(res.prop, res.tier)
    judge_net_trace(probe, finals, "c04-lossy-window", module="Trace_Interop", sample_kind="final")
    res.traces += probe.traces
    res.events += probe.events
    res.legs += probe.legs
    for label, cnt in list(probe.drift.items()) + [(v[0], 1) for v in probe.violations]:
        res.add_violation("LossyWindow:%s" % label, "C04: an upload that loses the tail of every window (blksize 65464, windowsize 7) does not complete although receive attempts keep succeeding (%s)" % label,
                          {"kind": "interop-final", "label": label, "finals": finals})


def c08_extras(res):
    res.extra["unbounded_inductive_invariant"] = EX.sender_inductive()


def negotiated_window_transfers(tag):
    """The wiring of the acknowledged windowsize into the real process (server.rs -> Worker): model
    clients that take the window from the OACK, at windows beyond 256 and at the 16-bit boundary."""
    events = []
    for single in (False, True):
        sb, srv = with_server("%s-%s" % (tag, "s" if single else "m"), shared=True, single=single, ow=True)
        try:
            for k, (w, nb) in enumerate(((300, 310), (65535, 40)) if not single else ((257, 600),)):
                content = X.make_file(nb, 8, 5)
                name = "nw_%d.bin" % k
                open(os.path.join(sb.send, name), "wb").write(content)
                opts = [("blksize", 8), ("windowsize", w), ("timeout", 2)]
                d = X.Download(srv, "%s-download-w%d" % (tag, w), name.encode(), content, opts=opts)
                u = X.Upload(srv, "%s-upload-w%d" % (tag, w), ("nw_up_%d.bin" % k).encode(), nb, 5, opts=opts,
                             target=os.path.join(sb.recv, "nw_up_%d.bin" % k))
                events += X.run_clients(srv, [d])
                events += X.run_clients(srv, [u])
        finally:
            drop_server(sb, srv)
    return events


def c08(res):
    c08_extras(res)
    W.run_vectors(res, big_buffer_scripts(), "recv-bigbuffer", layer=W.WORKER)
    # real time: a window of 300 datagrams can overrun a socket buffer on a loaded machine, which the
    # trace would show as a deviation; only a deviation seen in three runs out of three is reported
    for attempt in range(3):
        probe = C.Result(res.prop, res.tier)
        file_scenario_deviations(probe, negotiated_window_transfers("c08-negotiated-window"), "c08-negotiated-window",
                                 "the real process does not run the transfer with the window it acknowledged")
        if not probe.violations:
            break
    res.traces += probe.traces
    res.events += probe.events
    res.legs += probe.legs
    for sig, desc, rep in probe.violations:
        res.add_violation(sig, desc, rep)
    worker_families(res, ["MC_SendCoreQuick", "MC_RecvCoreQuick", "MC_SendBigWShort", "MC_RecvBigW"],
                    ["MC_SendCoreFull", "MC_RecvCoreFull", "MC_SendBigWShort", "MC_RecvBigW", "MC_SendBigWFull"])


def c13(res):
    slow = BackgroundProbe(silent_peer_scenarios, "c13-silent-default", None, default_timeout=True)
    worker_families(res, ["MC_RecvCoreQuick", "MC_RecvDevfull"], ["MC_RecvCoreFull", "MC_RecvDevfull"], random_legs=False)
    c13_second_clause(res)
    note = "a failed upload (silent peer) is not given up and cleaned as the specification prescribes"
    file_scenario_deviations(res, silent_peer_scenarios("c13-silent-keep", None, clean=False), "c13-silent-keep", note)
    file_scenario_deviations(res, slow.join(), "c13-silent-default", note)


def c15(res):
    res.extra["unbounded_wrap_lemma"] = EX.wrap_lemma()
    W.model_check(res, "MC_SendWrapSmall")
    W.model_check(res, "MC_RecvWrapSmall")
    worker_families(res, ["MC_SendWrapReal", "MC_RecvWrapReal"],
                    ["MC_SendWrapRealDeep", "MC_RecvWrapRealDeep", "MC_SendBigWFull"], random_legs=False)
    for profile, count in ([("wrapq", 1)] if res.tier == "quick" else [("wrap", 12), ("bigw", 8)]):
        W.run_random(res, profile, count)


def c16(res):
    W.model_check(res, "MC_ClosedDup", module="MC_TransferClosed")
    worker_families(res, ["MC_SendDup", "MC_RecvDup"], ["MC_SendDup", "MC_RecvDup"], random_legs=False)
    c16_startup(res)
    file_scenario_deviations(res, every_copy_downloads("c16-every-copy", res.tier == "quick"), "c16-every-copy",
                             "with --duplicate-packets a peer that acknowledges every copy does not get a conformant transfer")
    c16_interop(res)


def c16_startup(res):
    """--duplicate-packets N: the bound is part of Cli.tla (rejected for N >= 255, unparsable, missing);
    the real parser is judged on it by TLC, and the real binary must refuse to start / start."""
    path = os.path.join(C.GEN, "dup.vectors.ndjson")
    os.makedirs(C.GEN, exist_ok=True)
    vals = ["0", "1", "2", "3", "254", "255", "256", "257", "300", "1000", "65535", "65536", "-1", "x"]
    with open(path, "w") as f:
        for v in vals:
            f.write(json.dumps({"who": "server", "args": ["tftpd", "--duplicate-packets", v]}) + "\n")
            f.write(json.dumps({"who": "server", "args": ["tftpd", "-s", "--duplicate-packets", v, "-r"]}) + "\n")
        f.write(json.dumps({"who": "server", "args": ["tftpd", "--duplicate-packets"]}) + "\n")
    probe = C.Result("C17", res.tier)
    W.run_vectors(probe, path, "dup-cli", layer=W.CLI)
    res.traces += probe.traces
    res.events += probe.events
    res.legs += probe.legs
    for sig, desc, rep in probe.violations:
        res.add_violation("DupBound:" + sig, "C16: " + desc, rep)
    C.build_bins()
    import subprocess
    for v, should_start in (("254", True), ("255", False), ("256", False), ("300", False)):
        port = NET.free_port()
        pr = subprocess.Popen([C.repo_bin("tftpd"), "-i", NET.HOST, "-p", str(port), "-d", C.WORK, "--duplicate-packets", v],
                              stdout=subprocess.PIPE, stderr=subprocess.STDOUT, text=True)
        try:
            pr.wait(timeout=1.0)
            started = False
        except subprocess.TimeoutExpired:
            started = True
            pr.kill()
            pr.wait()
        res.legs.append({"family": "dup-startup", "N": v, "started": started})
        if started != should_start:
            res.add_violation("DupStartup|%s" % v, "C16: tftpd --duplicate-packets %s %s" % (v, "started" if started else "refused to start"),
                              {"kind": "startup", "N": v})


def every_copy_downloads(tag, q):
    """Peers that acknowledge EVERY copy (C16): lock-step downloads with --duplicate-packets N in
    which the model client answers each of the N+1 copies of a block at once, in both port modes
    and at the largest N.  The worker does not read while it emits the copies of a block, and its
    queue is first-in first-out, so it consumes: the first ACK k, [emits the copies of k+1], the
    N stale ACK k, the first ACK k+1, ...; the trace is written in that order."""
    events = []
    for single, n in (((True, 254), (False, 254), (True, 2)) if q else ((True, 254), (False, 254), (True, 2), (False, 3), (True, 100))):
        label = "%s-%s-n%d" % (tag, "s" if single else "m", n)
        sb, srv = with_server(label, shared=True, single=single, ow=True, dup=n)
        try:
            content = X.make_file(4, 8, 5)
            open(os.path.join(sb.send, "every.bin"), "wb").write(content)
            d = X.Download(srv, label, b"every.bin", content, opts=[("blksize", 8)])
            d.start()
            if d.started:
                r, copies = n + 1, {}
                while True:
                    got = d.pending or d.recv_some(1, quiet=1.5)
                    d.pending = []
                    if not got:
                        break
                    p = got[0]
                    if p["k"] != "data":
                        d.absorb([p])
                        continue
                    d.sock.sendto(NET.ack(p["n"]), d.peer)        # at once, every copy
                    d.absorb([p])
                    k = p["n"]
                    copies[k] = copies.get(k, 0) + 1
                    if copies[k] == r:
                        if k > 1:
                            for _ in range(r - 1):
                                d.log(e="in", k="ack", n=k - 1, dt=0)
                        d.log(e="in", k="ack", n=k, dt=0)
                        if k == d.nb:
                            break
                d.log(e="quiet")
            X.server_outcomes(srv, [d], wait=1.0)
            events += d.events
            d.close()
            if not srv.alive():
                events.append({"e": "cfg", "role": "send", "M": 65536, "W": 1, "NB": 1, "R": 1, "T": 1, "chk": False, "clean": True, "base0": 0,
                               "lastempty": False, "devfull": False, "blk": 8, "label": label + "-server-died", "net": True})
                events.append({"e": "out", "k": "err", "code": 0})
        finally:
            drop_server(sb, srv)
    return events


def c16_interop(res):
    """Real tftpc against real tftpd --duplicate-packets N: multiplicities on the wire
    (Trace_Transfer with R = N+1) and identical files.  The proxy's hold interval is a real-time
    guess at 'the server's burst is over'; a deviation is re-examined once with a generous one."""
    probe = c16_interop_pass(res, 0.008)
    if probe.violations or probe.drift:
        res.legs.append({"family": "dup-interop", "first_pass_deviations": len(probe.violations) + sum(probe.drift.values())})
        probe = c16_interop_pass(res, 0.06)
    res.traces += probe.traces
    res.events += probe.events
    res.legs += probe.legs
    for sig, desc, rep in probe.violations:
        res.add_violation(sig, desc, rep)
    for label, cnt in probe.drift.items():
        # scenario-specific: these runs differ from C14's only in the duplicate-packets mode
        res.add_violation("DupInterop:%s" % label, "C16: with --duplicate-packets the bundled client and server do not end with identical files / a conformant trace (%s) x%d" % (label, cnt),
                          {"kind": "dup-interop", "label": label, "finals": probe.extra.get("bad_finals", [])})


def c16_interop_pass(res, hold):
    q = res.tier == "quick"
    xfer_events, finals = [], []
    for n in ([1, 2, 3] if q else [1, 2, 3, 6, 254]):
        sb, srv = with_server("dup-%d" % n, shared=True, ow=True, dup=n)
        work = os.path.join(os.path.dirname(sb.base), "client")
        try:
            for direction in ("download", "upload"):
                for (nb, w) in ([(3, 1), (5, 2)] if n < 100 else [(2, 1)]):
                    content = X.make_file(nb, 512, 100)
                    name = "dup_%d_%d.bin" % (nb, w)
                    if direction == "download":
                        open(os.path.join(sb.send, name), "wb").write(content)
                    se, ce, fin = IO.one_run(srv, sb, work, direction, name, content, 512, w, 1,
                                             "dup%d-%s-n%d-w%d" % (n, direction, nb, w), hold=hold)
                    xfer_events += se      # the server's worker is the one that duplicates
                    finals.append(fin)
                    # and once without the proxy in between: the client's endpoint really goes away
                    # when tftpc exits, while the server may still be sending copies
                    se, ce, fin = IO.one_run(srv, sb, work, direction, "direct_" + name, content, 512, w, 1,
                                             "dup%d-%s-direct-n%d-w%d" % (n, direction, nb, w), via_proxy=False) \
                        if direction == "upload" else (None, None, None)
                    if fin:
                        time.sleep(0.05)
                        fin["target_exists"] = os.path.isfile(os.path.join(sb.recv, "direct_" + name))
                        fin["same"] = fin["target_exists"] and open(os.path.join(sb.recv, "direct_" + name), "rb").read() == content
                        finals.append(fin)
            alive = srv.alive()
        finally:
            drop_server(sb, srv)
    probe = C.Result("C16", res.tier)
    judge_transfers(probe, xfer_events, "dup-wire")
    judge_net_trace(probe, finals, "dup-final", module="Trace_Interop", sample_kind="final")
    probe.extra["bad_finals"] = [f for f in finals if not f["same"]][:3]
    return probe


def write_vectors(name, vectors):
    path = os.path.join(C.GEN, "%s-seed%d.vectors.ndjson" % (name, C.seed()))
    os.makedirs(C.GEN, exist_ok=True)
    with open(path, "w") as f:
        for v in vectors:
            f.write(json.dumps(v, separators=(",", ":")) + "\n")
    return path


def random_utf8(rng, n):
    alphabet = ["a", "Z", "0", ".", "/", "\\", " ", "é", "ß", "€", "𝄞", "\u212a", "-", "_"]
    return "".join(rng.choice(alphabet) for _ in range(n)).encode("utf-8")


def random_codec_vectors(rng, n):
    """seeded random and mutated datagrams up to 64 KiB (C10) and random packet values (C11)"""
    out = []
    for i in range(n):
        b = fuzz_datagram(rng)
        if i % 25 == 0:      # large ones: DATA up to the maximum, requests with long strings
            kind = rng.randrange(3)
            if kind == 0:
                b = NET.data(rng.randrange(65536), bytes(rng.randrange(256) for _ in range(rng.choice([1468, 8192, 65464, 65531]))))
            elif kind == 1:
                b = NET.rq(rng.choice([1, 2]), random_utf8(rng, rng.choice([300, 2000])), [("blksize", rng.randrange(1 << 40))])
            else:
                b = bytes([0, rng.choice([5, 6])]) + bytes(rng.randrange(1, 256) for _ in range(rng.choice([100, 3000]))) + b"\0"
        out.append({"b": list(b)})
    for i in range(n // 2):
        t = rng.choice(["rrq", "wrq", "data", "ack", "error", "oack"])
        opts = [{"o": rng.choice(["blksize", "tsize", "timeout", "windowsize"]),
                 "v": [int(c) for c in str(rng.choice([0, 1, rng.randrange(1 << 16), rng.randrange(1 << 64), (1 << 64) - 1]))]}
                for _ in range(rng.choice([0, 0, 1, 2, 4]))]
        if t in ("rrq", "wrq"):
            p = {"t": t, "fn": list(random_utf8(rng, rng.choice([0, 1, 8, 40, 500, 505, 512, 2000]))), "mode": list(rng.choice([b"octet", b"netascii", b""])), "opts": opts}
        elif t == "data":
            p = {"t": t, "n": rng.randrange(65536), "d": [rng.randrange(256) for _ in range(rng.choice([0, 1, 7, 512, 1468, 9000]))]}
        elif t == "ack":
            p = {"t": t, "n": rng.randrange(65536)}
        elif t == "error":
            p = {"t": t, "code": rng.randrange(8), "msg": list(random_utf8(rng, rng.choice([0, 5, 60, 60, 507, 511, 512, 513, 700, 4000])))}
        else:
            p = {"t": t, "opts": opts}
        out.append({"p": p})
    return out


def random_cli_vectors(rng, n):
    st = ["-i", "--ip-address", "-p", "--port", "-d", "--directory", "-rd", "--receive-directory", "-sd", "--send-directory",
          "--duplicate-packets", "-s", "--single-port", "-r", "--read-only", "--overwrite", "--keep-on-error", "--bogus",
          "0.0.0.0", "::1", "x.y", "69", "0", "65535", "65536", "-1", "x", "254", "255", "256", "D1", "D2", "nope", "/", "1", "2", "3"]
    ct = ["-i", "--ip-address", "-p", "--port", "-b", "--blocksize", "-w", "--windowsize", "-t", "--timeout", "-rd",
          "--receive-directory", "-u", "--upload", "-d", "--download", "--keep-on-error",
          "0.0.0.0", "x.y", "69", "65535", "65536", "70000", "-1", "x", "D1", "nope", "f", "/f", "a\\b"]
    out = []
    for i in range(n):
        # biased towards well-formed vectors: flag followed by a plausible value
        if i % 2 == 0:
            args = ["tftpd"] + [rng.choice(st) for _ in range(rng.randrange(4, 11))]
            out.append({"who": "server", "args": args})
        else:
            args = ["tftpc"] + [rng.choice(ct) for _ in range(rng.randrange(4, 11))]
            out.append({"who": "client", "args": args})
    items = [["-i", "0.0.0.0"], ["-p", "69"], ["-p", "0"], ["-d", "D1"], ["-d", "D2"], ["-rd", "D1"], ["-sd", "D2"], ["-s"], ["-r"],
             ["--overwrite"], ["--keep-on-error"], ["--duplicate-packets", "3"], ["--duplicate-packets", "254"], ["--port", "65535"],
             ["--send-directory", "/"], ["-i", "::1"]]
    for i in range(n):
        seq = [rng.choice(items) for _ in range(rng.randrange(3, 9))]
        out.append({"who": "server", "args": ["tftpd"] + [t for it in seq for t in it]})
    return out


def random_window_scripts(rng, n):
    out = []
    for i in range(n):
        mode = rng.choice(["r", "w"])
        size, chunk = rng.choice([1, 2, 3, 5, 8]), rng.choice([1, 2, 3, 7, 16])
        flen = rng.choice([0, 1, chunk - 1, chunk, chunk + 1, size * chunk, size * chunk + 1, 3 * size * chunk + rng.randrange(chunk + 1)])
        pure = mode == "r" and rng.random() < 0.6
        steps = []
        for _ in range(rng.randrange(10, 60)):
            op = rng.choice(["fill", "fill", "remove", "empty"] + ([] if pure else ["add", "add"]))
            if op == "remove":
                steps.append({"op": op, "k": rng.randrange(0, size + 2)})
            elif op == "add":
                steps.append({"op": op, "d": [100 + rng.randrange(100) for _ in range(rng.choice([0, 1, chunk, chunk + 2]))]})
            else:
                steps.append({"op": op})
        out.append({"cfg": {"mode": mode, "size": size, "chunk": chunk, "flen": max(0, flen), "pure": pure}, "steps": steps})
    return out


def short_prefix_vectors(v):
    return len(v["b"]) in (2, 4)


def u16_file():
    path = os.path.join(C.GEN, "u16.vectors.ndjson")
    if not os.path.exists(path):
        os.makedirs(C.GEN, exist_ok=True)
        with open(path, "w") as f:
            f.write('{"u16":[0,65535]}\n')
    return path


def codec(res):
    """C10 and C11 share the enumerations; each files only the deviations labelled with its id."""
    q = res.tier == "quick"
    W.run_family(res, "MC_Codec_BytesQuick" if q else "MC_Codec_BytesFull", layer=W.CODEC)
    W.run_family(res, "MC_Codec_DeepQuick" if q else "MC_Codec_DeepFull", layer=W.CODEC)
    W.run_family(res, "MC_Codec_Prefix", select=short_prefix_vectors if q else None, layer=W.CODEC)
    W.run_family(res, "MC_Codec_PacketsQuick" if q else "MC_Codec_PacketsFull", layer=W.CODEC)
    W.run_vectors(res, u16_file(), "u16-conversions", layer=W.CODEC)
    rng = random.Random(C.seed())
    W.run_vectors(res, write_vectors("codec-random", random_codec_vectors(rng, 300 if q else 6000)), "codec-random-seed%d" % C.seed(), layer=W.CODEC)
    res.assumptions += ["'never reads outside the buffer' is observed as 'never panics' (safe Rust)",
                        "option names are compared ASCII-case-insensitively in the specification; Unicode characters whose lowercase is ASCII (KELVIN SIGN) are outside the enumerated alphabet",
                        "ERROR without a terminated or well-formed message decodes with the message '(no message)' (the code's documented behaviour, covered by a baseline test)"]


def judge_net_trace(res, events, tag, module="Trace_Requests", sample_kind="req"):
    """Writes the recorded exchanges, lets TLC judge them, files deviations."""
    tdir = os.path.join(C.WORK, "traces")
    os.makedirs(tdir, exist_ok=True)
    tpath = os.path.join(tdir, "%s-%d.trace.ndjson" % (tag, os.getpid()))
    NET.write_trace(tpath, events)
    devs, nev, _ = W.judge(tpath, module=module, cfg=module + ".cfg")
    recs = W.deviation_records(devs, tpath, None, tag)
    nreq = sum(1 for e in events if e.get("e") == sample_kind)
    res.traces += nreq
    res.events += nev
    res.legs.append({"family": tag, "exchanges": nreq, "events": nev, "deviations": len(devs)})
    for e in events:
        if e.get("e") == sample_kind and len(res.samples) < 4 and len(json.dumps(e)) < 1500:
            res.samples.append({"family": tag, "exchange": e})
            break
    W.file_records(res, recs)
    if not devs:
        os.remove(tpath)
    return devs


SERVER_CONFIGS = [
    # (shared dir, single port, read-only, overwrite)
    dict(shared=True, single=False, ro=False, ow=False),
    dict(shared=False, single=False, ro=False, ow=True),
    dict(shared=False, single=True, ro=False, ow=False),
    dict(shared=True, single=True, ro=True, ow=False),
    dict(shared=False, single=False, ro=False, ow=False, rd_only=True),     # -d and -rd only: send dir = -d
]


def record_requests(vectors, make_requests, tag, configs, only=None, patient=False):
    """For every server configuration: start the real tftpd in a fresh sandbox and send the
    request(s) derived from every vector, one exchange each.  `only`: set of sids to run."""
    import shutil
    events = []
    sid = 0
    for ci, cfg in enumerate(configs):
        todo = []
        for v in vectors:
            for req in make_requests(v):
                sid += 1
                if only is None or sid in only:
                    todo.append((sid, req))
        if not todo:
            continue
        sb = NET.Sandbox(os.path.join(C.WORK, "sbx", "%s-%d-%d" % (tag, os.getpid(), ci), "base"), cfg["shared"])
        srv = NET.Server(sb, single=cfg["single"], ro=cfg["ro"], ow=cfg["ow"], clean=cfg.get("clean", True),
                         rd_only=cfg.get("rd_only", False))
        reused = None
        if cfg.get("reuse"):
            # every request of this configuration comes from ONE endpoint that has already had a
            # (completed) transfer: refusals and service must not depend on the endpoint's history
            import socket as _s
            reused = _s.socket(_s.AF_INET, _s.SOCK_DGRAM)
            reused.bind((NET.HOST, 0))
            warm = X.Download(srv, "warm-up", b"a/a", open(os.path.join(sb.send, "a", "a"), "rb").read(), sock=reused)
            warm.start()
            while not warm.done:
                warm.step()
        try:
            events.append(srv.cfg_event())
            silent = 0
            for sid_, req in todo:
                events.append(NET.exchange(srv, req, sid_, patient=patient, a_sock=reused))
                if not srv.alive():
                    events.append({"e": "dead", "sid": sid_, "status": srv.exit_status()})
                    break
                # a listener that answers neither the request nor the sentinel behind it, five
                # times in a row, is wedged: no point in waiting out the rest of the sequence
                silent = 0 if NET.LAST["sentinel_answered"] else silent + 1
                if silent >= 5:
                    events.append({"e": "dead", "sid": sid_, "status": "wedged"})
                    break
        finally:
            if reused is not None:
                reused.close()
            srv.stop()
            shutil.rmtree(os.path.dirname(sb.base), ignore_errors=True)
    return events


def run_requests(res, vectors, make_requests, tag, configs):
    """record -> judge; every deviation is re-run once in isolation with generous deadlines and
    only counts if it persists (real time enters only one-sidedly, DESIGN.md section 9)."""
    C.build_bins()
    if isinstance(vectors, str):
        vectors = [json.loads(l) for l in open(vectors)]
    events = record_requests(vectors, make_requests, tag, configs)
    probe = C.Result(res.prop, res.tier)
    devs = judge_net_trace(probe, events, tag)
    if devs:
        bad = set()
        lines = [e for e in events]
        seen_labels = {}
        for (ln, label) in devs:
            ev = lines[ln - 1]
            # a systematic defect persists on any sample of its occurrences: re-run at most 8 per label
            if "sid" in ev and seen_labels.get(label, 0) < 8:
                seen_labels[label] = seen_labels.get(label, 0) + 1
                bad.add(ev["sid"])
        events2 = record_requests(vectors, make_requests, tag + "-retry", configs, only=bad, patient=True)
        res.legs.append({"family": tag, "first_pass_deviations": len(devs), "retried": len(bad)})
        nreq = sum(1 for e in events if e.get("e") == "req")
        res.traces += nreq
        res.events += len(events)
        return judge_net_trace(res, events2, tag + "-retry")
    res.traces += probe.traces
    res.events += probe.events
    res.legs += probe.legs
    res.samples += probe.samples[:2]
    return devs


def name_requests(v):
    name = bytes(v["name"])
    return [NET.rq(1, name), NET.rq(2, name)]


def c03(res):
    q = res.tier == "quick"
    fam = "MC_Requests_NamesQuick" if q else "MC_Requests_NamesFull"
    meta, spath = W.generate(fam, module="MC_Requests")
    res.states += meta["states"]
    res.transitions += meta["transitions"]
    if q:
        # quick: every name up to length 4 against the shared-directory server, every name up to
        # length 3 against distinct directories with --overwrite
        allv = [json.loads(l) for l in open(spath)]
        run_requests(res, allv, name_requests, fam, [SERVER_CONFIGS[0]])
        run_requests(res, [v for v in allv if len(v["name"]) <= 3], name_requests, fam + "-len3", [SERVER_CONFIGS[1]])
    else:
        run_requests(res, spath, name_requests, fam, SERVER_CONFIGS)
    res.extra["exhaustive"] = True
    # the directories themselves: with only -d and -rd given, reads must come from -d
    run_requests(res, [{"name": list(n)} for n in (b"b", b"a/a", b"a/b", b"s", b"zz", b"/b", b"a\\a")], name_requests, "dirs-rd-only", [SERVER_CONFIGS[4]])
    # failed uploads must clean up INSIDE the receive directory only: names whose basename also
    # exists in the server's working directory (the sandbox base holds decoys "a", "b", "outside.txt")
    ab_events = []
    for cfgx in (SERVER_CONFIGS[0], SERVER_CONFIGS[1]):
        sb = NET.Sandbox(os.path.join(C.WORK, "sbx", "abort-%d" % os.getpid(), "base"), cfgx["shared"])
        srv = NET.Server(sb, single=cfgx["single"], ro=cfgx["ro"], ow=cfgx["ow"])
        try:
            ab_events.append(srv.cfg_event())
            import socket as _s
            for k, name in enumerate([b"zz/b", b"newdir/outside.txt", b"a/outside.txt", b"outside.txt", b"sub\\a"]):
                sock = _s.socket(_s.AF_INET, _s.SOCK_DGRAM)
                sock.bind((NET.HOST, 0))
                req = NET.rq(2, name)
                sock.sendto(req, (NET.HOST, srv.port))
                b, addr = NET.recv_reply(sock, 1.0)
                ev = {"e": "req", "sid": 9000 + k, "bytes": NET.codes(req), "known": False, "tried": False, "completed": False,
                      "up": "", "delta": [], "probe": False, "from": "na", "reply": {"k": "none"}}
                if b is not None:
                    r = NET.parse(b)
                    ev["from"] = "listener" if addr[1] == srv.port else "worker"
                    ev["reply"] = {"k": r["k"], "n": r.get("n", 0)} if r["k"] == "ack" else ({"k": "error", "code": r["code"]} if r["k"] == "error" else {"k": r["k"]})
                    if r["k"] == "ack":
                        sock.sendto(NET.data(1, b"x" * 512), addr)      # a full block: the upload is under way
                        NET.recv_reply(sock, 0.5)
                        sock.sendto(NET.error(0, b"abort"), addr)       # ... and is aborted
                        time.sleep(0.15)
                sock.close()
                ev["delta"] = sb.delta("", None)
                ab_events.append(ev)
        finally:
            srv.stop()
            shutil.rmtree(os.path.dirname(sb.base), ignore_errors=True)
    judge_net_trace(res, ab_events, "aborted-uploads")
    # beyond the alphabet: seeded random / mutated names up to the request limit
    rng = random.Random(C.seed())
    parts = [b"a", b"b", b"s", b"..", b".", b"...", b"", b"root", b"rootx", b"send", b"recv", b"sendx", b"outside.txt", b"%2e%2e",
             b"caf\xc3\xa9", b"\xe2\x80\xa6", b"x" * 254, b"y" * 255, b"z" * 256, b" ", b"a b", b"-", b"~", b"C:", b"\xff"]
    seps = [b"/", b"\\", b"//", b"\\\\", b"/./", b"/../", b"\\..\\", b"/\\"]
    vectors = []
    for i in range(100 if q else 4000):
        n = rng.choice([1, 1, 2, 2, 3, 4, 6])
        name = rng.choice([b"", b"/", b"\\", b"../", b"//"]) if rng.random() < 0.4 else b""
        for j in range(n):
            name += rng.choice(parts) + (rng.choice(seps) if j + 1 < n or rng.random() < 0.2 else b"")
        vectors.append({"name": list(name[:440])})
    run_requests(res, vectors, name_requests, "names-random-seed%d" % C.seed(), SERVER_CONFIGS[:2] if q else SERVER_CONFIGS[:3])
    res.assumptions += ["no symbolic links inside the served trees", "one request per fresh client endpoint; silence is re-confirmed once with a 1 s deadline"]


ALL_CONFIGS = [dict(shared=sh, single=si, ro=ro, ow=ow, clean=cl)
               for sh in (True, False) for si in (False, True) for ro in (False, True) for ow in (False, True)
               for cl in (True, False)]
POLICY_NAMES = [b"zz", b"b", b"s", b"a/a", b"a/new", b"a", b"nodir/x", b"../b", b"/b", b"\\a\\b",
                b"b/child", b"x" * 300, b".b", b"./b", b".zz", b"ln"]
POLICY_OPTS = [(), (("blksize", 1024),), (("timeout", 0),), (("tsize", 0), ("windowsize", 2))]


def policy_requests(v):
    return [NET.rq(v["op"], bytes(v["name"]), [tuple(o) for o in v["opts"]])]


def c06(res):
    """The decision table of Requests.tla (a TLA+ function of flags x kind x target state x options)
    is evaluated by TLC on every recorded exchange with the real process."""
    q = res.tier == "quick"
    vectors = [{"op": op, "name": list(n), "opts": [list(o) for o in os_]} for n in POLICY_NAMES for op in (1, 2)
               for os_ in POLICY_OPTS]
    pick = lambda **kw: next(c for c in ALL_CONFIGS if all(c[k] == v for k, v in kw.items()))
    configs = [pick(shared=True, single=False, ro=False, ow=False, clean=True),
               pick(shared=True, single=False, ro=False, ow=True, clean=True),
               pick(shared=False, single=True, ro=False, ow=True, clean=False),
               pick(shared=False, single=False, ro=True, ow=True, clean=True),
               pick(shared=True, single=True, ro=False, ow=False, clean=True),
               pick(shared=False, single=True, ro=True, ow=False, clean=False)] if q else ALL_CONFIGS
    configs = configs + [dict(pick(shared=True, single=True, ro=False, ow=False, clean=True), reuse=True),
                         dict(pick(shared=True, single=True, ro=True, ow=False, clean=True), reuse=True),
                         dict(pick(shared=True, single=False, ro=False, ow=False, clean=True), reuse=True)]
    if not q:
        # order effects: every ordered pair of rows for two representative configurations
        pairs = []
        base = vectors[::3]
        for x in base:
            for y in base:
                pairs += [x, y]
        run_requests(res, pairs, policy_requests, "policy-pairs", [ALL_CONFIGS[0], ALL_CONFIGS[13]])
    run_requests(res, vectors, policy_requests, "policy-table", configs)
    W.model_check(res, "MC_Requests_NamesQuick", module="MC_Requests")
    res.assumptions += ["each exchange uses a fresh client endpoint and the sandbox is restored after every change, so rows are independent up to lingering worker threads"]


def opts_requests_for(sizes):
    def f(v):
        opts = [(o["o"], "".join(str(d) for d in o["v"])) for o in v["opts"]]
        return [NET.rq(1, b"b", opts), NET.rq(1, b"a/a", opts), NET.rq(2, b"new", opts)]
    return f


def silent_peer_scenarios(tag, tmo_opts, default_timeout=False, single=False, clean=True):
    """A peer that falls silent (C07, C13, C04): one download and one upload against the real
    process.  The client logs one `fail` per timeout of the server's worker: the sender must
    retransmit after each of the first five and give up at the sixth; the receiver must give up
    after six and (clean-on-error) remove the partial file.  Returns Trace_Transfer events."""
    sb, srv = with_server(tag, shared=True, single=single, ow=True, clean=clean)
    events = []
    try:
        T = 5 if default_timeout else 1
        opts = [] if default_timeout else [("blksize", 8), ("timeout", 1)]
        blk = 512 if default_timeout else 8
        # upload: one block, then silence
        u = X.Upload(srv, tag + "-upload", b"silent_up.bin", 4, 5, opts=opts, target=os.path.join(sb.recv, "silent_up.bin"))
        u.start()
        if u.started:
            u.log(e="in", k="data", n=1, id=1, sz="full", dt=0)
            u.sock.sendto(NET.data(1, X.payload(1, blk)), u.peer)
            for p in u.recv_some(srv.flags["dup"] + 1, quiet=1.0):
                if p["k"] == "ack":
                    u.log(e="out", k="ack", n=p["n"], file=u.file_proj())
        t_up = time.time()
        # download: first window acknowledged, then silence; one `fail` per retransmission
        d = None
        if not default_timeout:
            content = X.make_file(5, 8, 5)
            open(os.path.join(sb.send, "silent_dl.bin"), "wb").write(content)
            d = X.Download(srv, tag + "-download", b"silent_dl.bin", content, opts=opts + [("windowsize", 2)])
            d.start()
            if d.started:
                d.absorb(d.recv_some(2, quiet=1.0))
                d.send_input(("ack", d.expected - 1))
                d.absorb(d.recv_some(2, quiet=1.0))
                for k in range(6):
                    d.send_input(("wait", T))
                    got = d.recv_some(2, quiet=T + 1.2)
                    d.absorb(got)
                    if not got:
                        break
                d.log(e="quiet")
        # let the upload's six timeouts pass
        remaining = 6 * T + 1.0 - (time.time() - t_up)
        if remaining > 0:
            time.sleep(remaining)
        if u.started:
            for k in range(6):
                u.log(e="in", k="fail", n=0, dt=T)
            u.log(e="quiet")
        X.server_outcomes(srv, [c for c in (u, d) if c is not None], wait=3.0)
        for c in (u, d):
            if c is not None:
                events += c.events
                c.close()
    finally:
        drop_server(sb, srv)
    return events


def peer_error_scenarios(tag, single):
    """A peer that sends ERROR in the middle of a transfer (C07): one download (after the first
    window) and one upload (after the first block) against the real process.  The worker must
    end at once: nothing more on the wire while its timeout would have fired, the end reported
    within a second, and (clean-on-error) the partial upload removed.  Returns Trace_Transfer events."""
    sb, srv = with_server(tag, shared=True, single=single, ow=True)
    events = []
    try:
        opts = [("blksize", 8), ("timeout", 1)]
        content = X.make_file(7, 8, 5)
        open(os.path.join(sb.send, "err_dl.bin"), "wb").write(content)
        d = X.Download(srv, tag + "-download", b"err_dl.bin", content, opts=opts + [("windowsize", 2)])
        d.start()
        if d.started:
            d.absorb(d.recv_some(2, quiet=1.0))
            d.send_input(("ack", d.expected - 1))
            d.absorb(d.recv_some(2, quiet=1.0))
            d.send_input(("err",))
        u = X.Upload(srv, tag + "-upload", b"err_up.bin", 4, 5, opts=opts, target=os.path.join(sb.recv, "err_up.bin"))
        u.start()
        if u.started:
            u.log(e="in", k="data", n=1, id=1, sz="full", dt=0)
            u.sock.sendto(NET.data(1, X.payload(1, 8)), u.peer)
            for p in u.recv_some(srv.flags["dup"] + 1, quiet=1.0):
                if p["k"] == "ack":
                    u.log(e="out", k="ack", n=p["n"], file=u.file_proj())
            u.log(e="in", k="err", n=0, dt=0)
            u.sock.sendto(NET.error(0, b"stop"), u.peer)
        # whatever either worker still emits while its timeout (1 s) would have fired belongs in the trace
        if d.started:
            d.absorb(d.recv_some(4, quiet=1.6))
            d.log(e="quiet")
        if u.started:
            for p in u.recv_some(2, quiet=0.3):
                u.log(e="out", k=p["k"], n=p.get("n", 0), file=u.file_proj()) if p["k"] == "ack" else u.log(e="out", k=p["k"])
            u.log(e="quiet")
        X.server_outcomes(srv, [d, u], wait=0.5)
        for c in (d, u):
            events += c.events
            c.close()
    finally:
        drop_server(sb, srv)
    return events


class BackgroundProbe:
    """Runs a slow real-time scenario (six default 5 s timeouts) while the check does other work."""

    def __init__(self, fn, *args, **kw):
        import threading
        self.result, self.error = None, None

        def run():
            try:
                self.result = fn(*args, **kw)
            except Exception as e:      # reported as a tool error by join()
                self.error = e
        self.t = threading.Thread(target=run, daemon=True)
        self.t.start()

    def join(self):
        self.t.join(120)
        if self.error:
            raise C.ToolError("background probe failed: %r" % (self.error,))
        return self.result or []


def file_scenario_deviations(res, events, tag, prop_note):
    """Judges per-transfer traces of a scenario that exists for ONE property: every deviation in
    it is filed under the calling check's property (the scenario is its hypothesis)."""
    probe = C.Result(res.prop, res.tier)
    judge_net_trace(probe, events, tag, module="Trace_Transfer", sample_kind="cfg")
    res.traces += probe.traces
    res.events += probe.events
    res.legs += probe.legs
    res.samples += probe.samples[:1]
    for sig, desc, rep in probe.violations:
        res.add_violation(sig, desc, rep)
    for label, cnt in probe.drift.items():
        res.add_violation("%s:%s|%s" % (tag, label, res.prop), "%s: %s (%s) x%d in %s" % (res.prop, prop_note, label, cnt, tag),
                          {"kind": "net-transfers", "label": label, "scenario": tag})


def boundary_transfers(res, direction, tag):
    """Model-client transfers through the real process (real UdpSocket / ServerSocket receive
    paths) at the block-size boundaries, both port modes."""
    events = []
    for single in (False, True):
        sb, srv = with_server("%s-%s" % (tag, "s" if single else "m"), shared=True, single=single, ow=True)
        try:
            clients = []
            # in single-port mode all transfers come from ONE endpoint, one after the other: every
            # new request must take over the route of the finished one
            import socket as _s
            shared_sock = None
            if single:
                shared_sock = _s.socket(_s.AF_INET, _s.SOCK_DGRAM)
                shared_sock.bind((NET.HOST, 0))
            for k, (blk, w) in enumerate([(8, 1), (8, 3), (512, 2), (1468, 1), (65464, 1), (65464, 2), (65463, 1)]):
                nb, last = (3, 5 if blk == 8 else blk - 1)
                opts = [("blksize", blk), ("windowsize", w)]
                if direction == "download":
                    content = X.make_file(nb, blk, last)
                    name = "bt_%d.bin" % k
                    open(os.path.join(sb.send, name), "wb").write(content)
                    clients.append(("d", "%s-b%d-w%d" % (tag, blk, w), name.encode(), content, opts))
                else:
                    name = "bt_up_%d.bin" % k
                    clients.append(("u", "%s-b%d-w%d" % (tag, blk, w), name.encode(), (nb, last), opts))
            if direction == "download":
                for nm, seedid in ((".dot.bin", 7000), ("dot.bin", 8000)):
                    content = b"".join(X.payload(seedid + i, 512 if i < 3 else 77) for i in range(1, 4))
                    open(os.path.join(sb.send, nm), "wb").write(content)
                    clients.append(("d", "%s-%s" % (tag, nm), nm.encode(), content, []))
            for kind, label, name, what, opts in clients:
                if kind == "d":
                    c = X.Download(srv, label, name, what, opts=opts, sock=shared_sock)
                else:
                    c = X.Upload(srv, label, name, what[0], what[1], opts=opts, target=os.path.join(sb.recv, name.decode()), sock=shared_sock)
                c.sock.setsockopt(_s.SOL_SOCKET, _s.SO_RCVBUF, 4 << 20)
                c.start()
                while not c.done:
                    c.step()
                X.server_outcomes(srv, [c])
                events += c.events
                if shared_sock is None:
                    c.close()
                else:
                    c.wire_from = set()
            if shared_sock is not None:
                shared_sock.close()
        finally:
            drop_server(sb, srv)
    return events


def wait_once_policy(seconds):
    """conformant, except that after the first window the client stays silent once for `seconds`"""
    def policy(c, burst):
        if not getattr(c, "waited", False) and c.expected > 1:
            c.waited = True
            return [("wait", seconds), ("ack", c.expected - 1)]
        return [("ack", c.expected - 1)]
    return policy


def c09_behaviour(res):
    """The transfer that follows an OACK must be a lone transfer of Transfer.tla with exactly the
    acknowledged values: block length, blocks per window, ACK cadence, retransmission interval."""
    q = res.tier == "quick"
    optsets = [[("blksize", 8), ("windowsize", 3), ("timeout", 1)], [("blksize", 512), ("windowsize", 2)],
               [("windowsize", 4)], [("blksize", 1024)], [("timeout", 2)], [],
               [("BLKSIZE", 16), ("unknown", 5), ("WindowSize", 2)], [("tsize", 0), ("blksize", 9)], [("blksize", 65464)]]
    if not q:
        optsets += [[("blksize", 65464)], [("blksize", 8), ("windowsize", 64)], [("windowsize", 65535), ("blksize", 8)],
                    [("timeout", 255), ("blksize", 10)]]
    for single in (False, True):
        sb, srv = with_server("c09b-%s" % ("s" if single else "m"), shared=True, single=single, ow=True)
        events = []
        slow = []
        try:
            for k, opts in enumerate(optsets):
                blk = next((v for o, v in opts if o.lower() == "blksize"), 512)
                for nb, last in ((7, 5 if blk > 5 else 4), (4, 0)):
                    content = X.make_file(nb, blk, last)
                    name = "c09_%d_%d.bin" % (k, nb)
                    open(os.path.join(sb.send, name), "wb").write(content)
                    d = X.Download(srv, "dl-%d-%d" % (k, nb), name.encode(), content, opts=opts)
                    u = X.Upload(srv, "ul-%d-%d" % (k, nb), ("up_" + name).encode(), nb, last, opts=opts,
                                 target=os.path.join(sb.recv, "up_" + name))
                    events += X.run_clients(srv, [d, u])
            # retransmission interval, one-sided: never earlier than the acknowledged timeout
            for tmo in ([1] if q else [1, 2]):
                content = X.make_file(5, 8, 5)
                open(os.path.join(sb.send, "c09_wait.bin"), "wb").write(content)
                d = X.Download(srv, "dl-wait-%d" % tmo, b"c09_wait.bin", content,
                               opts=[("blksize", 8), ("timeout", tmo)], policy=wait_once_policy(tmo))
                events += X.run_clients(srv, [d])
                slow.append((tmo, getattr(d, "retransmit_after", None)))
        finally:
            drop_server(sb, srv)
        tag = "negotiated-transfers-%s" % ("single" if single else "multi")
        probe = C.Result("C09", res.tier)
        devs = judge_net_trace(probe, events, tag, module="Trace_Transfer", sample_kind="cfg")
        res.traces += probe.traces
        res.events += probe.events
        res.legs += probe.legs
        res.samples += probe.samples[:1]
        for sig, desc, rep in probe.violations:
            res.add_violation(sig, desc, rep)
        for label, cnt in probe.drift.items():
            # in this scenario every deviation means: the transfer does not use the acknowledged values
            res.add_violation("NegotiatedTransfer:%s|%s" % (label, tag), "C09: transfer after negotiation deviates (%s) x%d in %s" % (label, cnt, tag),
                              {"kind": "net-transfers", "label": label})
        for tmo, seen in slow:
            res.legs.append({"family": tag + "-retransmit", "timeout_s": tmo, "retransmitted_after_s": seen})
            if seen is not None and seen < tmo - 0.05:
                res.add_violation("EarlyRetransmission|%s" % tag, "C09: window retransmitted after %.2f s, acknowledged timeout %d s" % (seen, tmo),
                                  {"kind": "timing", "timeout": tmo, "seen": seen})


def c09(res):
    c09_first_reply(res)
    c09_behaviour(res)


def c09_first_reply(res):
    q = res.tier == "quick"
    fams = ["MC_Requests_Opts1", "MC_Requests_OptsQuick"] if q else ["MC_Requests_Opts1", "MC_Requests_OptsFull"]
    for fam in fams:
        meta, spath = W.generate(fam, module="MC_Requests")
        res.states += meta["states"]
        res.transitions += meta["transitions"]
        vectors = [json.loads(l) for l in open(spath)]

        def reqs(v, q=q):
            opts = [(o["o"], "".join(str(d) for d in o["v"])) for o in v["opts"]]
            out = [NET.rq(1, b"b", opts), NET.rq(2, b"new", opts)]
            return out if q else out + [NET.rq(1, b"a/a", opts)]
        run_requests(res, vectors, reqs, fam, [SERVER_CONFIGS[0], SERVER_CONFIGS[2]])
    # unknown options before / between / after recognised ones, odd spellings, a symbolic link as the
    # file whose true size tsize must report (raw requests; the decoder's view comes from Codec.Decode)
    mixed = [[("rollover", 0), ("blksize", 1024)], [("blksize", 1024), ("multicast", ""), ("windowsize", 2)],
             [("x", "y"), ("TSIZE", 0)], [("tsize", 0), ("unknown", 1), ("timeout", 3), ("zzz", "")],
             [("BlKsIzE", 9), ("blksize2", 7)], [("timeout", 2), ("", "")], [("tsize", 0)], [("tsize", 12345)]]
    raw = [{"raw": [[o, str(v)] for o, v in m]} for m in mixed]

    def raw_reqs(v):
        opts = [(o, val) for o, val in v["raw"]]
        return [NET.rq(1, b"b", opts), NET.rq(1, b"ln", opts), NET.rq(2, b"new2", opts)]
    run_requests(res, raw, raw_reqs, "mixed-options", [SERVER_CONFIGS[0], SERVER_CONFIGS[2]])
    res.assumptions += ["first reply compared field by field with Negotiate (Options.tla); silence confirmed by a sentinel exchange with the single-threaded listener"]


def judge_transfers(res, events, tag):
    """Per-transfer traces recorded against the real process, judged by Trace_Transfer."""
    return judge_net_trace(res, events, tag, module="Trace_Transfer", sample_kind="cfg")


def with_server(tag, shared=True, **flags):
    C.build_bins()
    sb = NET.Sandbox(os.path.join(C.WORK, "sbx", "%s-%d" % (tag, os.getpid()), "base"), shared)
    return sb, NET.Server(sb, **flags)


def drop_server(sb, srv):
    srv.stop()
    shutil.rmtree(os.path.dirname(sb.base), ignore_errors=True)


def geometry(rng, blk):
    """(nb, last) around block / window boundaries; last is 0 or >= 4 so that it is recognisable"""
    nb = rng.choice([1, 1, 2, 3, 4, 5, 7, 9])
    last = rng.choice([0, 4, blk - 1])
    return nb, last


def intruder_burst(srv, rng, sid0, worker_ports):
    """Foreign endpoint: well-formed non-request packets at the listening port (each must be
    answered with ERROR 4 by the listener) and at live workers' ports (must have no effect)."""
    evs = []
    for j in range(3):
        kind = rng.choice(["ack", "data", "error", "oack"])
        pkt = {"ack": NET.ack(rng.randrange(4)), "data": NET.data(rng.randrange(4), b"intruder"),
               "error": NET.error(rng.randrange(8)), "oack": b"\0\6blksize\0" + b"8\0"}[kind]
        evs.append(NET.exchange(srv, pkt, sid0 + j, complete_uploads=False, track=False))
        for port in list(worker_ports)[:4]:
            s = __import__("socket").socket(__import__("socket").AF_INET, __import__("socket").SOCK_DGRAM)
            s.sendto(pkt, (NET.HOST, port))
            s.close()
    return evs


def concurrent_scenario(res, tag, single, k, rng, rounds):
    """K concurrent model clients (mixed uploads / downloads of distinct files, random options)
    plus an intruder; each client's projection must be a lone transfer of its own file."""
    sb, srv = with_server(tag, shared=True, single=single, ow=True)
    xfer_events, req_events = [], [srv.cfg_event()]
    ok_all = True
    try:
        sid = 0
        old_socks = []
        for rnd in range(rounds):
            clients = []
            reuse = []      # sockets of endpoints whose earlier transfer is over: a new request re-routes them
            for c in range(k):
                blk = rng.choice([8, 9, 16, 512, 1024, 1468])
                w = rng.choice([1, 1, 2, 3, 4])
                opts = rng.choice([[], [("blksize", blk)], [("blksize", blk), ("windowsize", w)], [("windowsize", w)]])
                eff_blk = blk if any(o[0] == "blksize" for o in opts) else 512
                nb, last = geometry(rng, eff_blk)
                name = ("f%d_%d.bin" % (rnd, c)).encode()
                if rng.random() < 0.5:
                    content = X.make_file(nb, eff_blk, last)
                    # distinct content per file: shift ids so that slices of different files differ
                    content = b"".join(X.payload(1000 * (c + 1) + i, eff_blk if i < nb else last) for i in range(1, nb + 1))
                    with open(os.path.join(sb.send, name.decode()), "wb") as f:
                        f.write(content)
                    clients.append(X.Download(srv, "dl-%d-%d" % (rnd, c), name, content, opts=opts,
                                              sock=old_socks.pop() if old_socks and rng.random() < 0.5 else None))
                else:
                    clients.append(X.Upload(srv, "ul-%d-%d" % (rnd, c), name, nb, last, opts=opts,
                                            target=os.path.join(sb.recv, name.decode()),
                                            sock=old_socks.pop() if old_socks and rng.random() < 0.5 else None))
            # two more clients read ONE shared file; the first gives up with an ERROR after its first
            # window - which must not take anything away from the second (or from later rounds)
            shared = b"".join(X.payload(4000 + i, 512 if i < 4 else 99) for i in range(1, 5))
            if rnd == 0:
                open(os.path.join(sb.send, "shared.bin"), "wb").write(shared)      # once: it must still be there in later rounds

            def quitter(c, burst):
                return [("err",)]
            clients.append(X.Download(srv, "dl-%d-quit" % rnd, b"shared.bin", shared, policy=quitter))
            clients.append(X.Download(srv, "dl-%d-stay" % rnd, b"shared.bin", shared))
            for c in clients:
                c.start()
            live = [c for c in clients if not c.done]
            while live:
                c = rng.choice(live)
                c.step()
                if rng.random() < 0.15:
                    ports = set()
                    for x in clients:
                        ports |= {p for p in x.wire_from if p != srv.port}
                    req_events += intruder_burst(srv, rng, sid, ports)
                    sid += 3
                live = [c for c in clients if not c.done]
            X.server_outcomes(srv, clients)
            # an endpoint whose transfer is over owns nothing any more: its late packets at the
            # listening port must be refused like any foreign endpoint's
            for c in clients:
                if c.started and rng.random() < 0.5:
                    pkt = rng.choice([NET.ack(1), NET.data(1, b"late"), NET.error(0)])
                    c.sock.sendto(pkt, (NET.HOST, srv.port))
                    b, addr = NET.recv_reply(c.sock, 0.3)
                    if b is None:
                        b, addr = NET.recv_reply(c.sock, 1.0)
                    r = NET.parse(b) if b else {"k": "none"}
                    sid += 1
                    req_events.append({"e": "req", "sid": sid, "bytes": NET.codes(pkt), "known": False, "tried": False,
                                       "completed": False, "up": "", "delta": [], "probe": False,
                                       "reply": {"k": r["k"], "code": r.get("code", 0)} if r["k"] == "error" else {"k": r["k"]},
                                       "from": ("listener" if addr and addr[1] == srv.port else "worker") if b else "na"})
            for c in clients:
                xfer_events += c.events
                if not c.finished_ok and not c.label.endswith("-quit"):
                    xfer_events.append({"e": "cfg", "role": "send", "M": 65536, "W": 1, "NB": 1, "R": 1, "T": 5,
                                        "chk": False, "clean": True, "base0": 0, "lastempty": False, "devfull": False,
                                        "label": "incomplete:" + c.label, "net": True})
                    xfer_events.append({"e": "hang"})
                # single-port: every datagram comes from the listening port; multi: from one other port
                wrong = (c.wire_from != {srv.port}) if single else (srv.port in c.wire_from and c.started and len(c.wire_from) != 1)
                if c.started and wrong:
                    req_events.append({"e": "portmix", "label": c.label, "ports": sorted(c.wire_from)})
                if not c.started:
                    req_events.append({"e": "notserved", "label": c.label, "notes": repr(c.notes)})
                if len(old_socks) < 3 and c.finished_ok:
                    c.wire_from = set()
                    old_socks.append(c.sock)      # this endpoint comes back with a new request next round
                else:
                    c.close()
            # uploaded files byte-identical on disk
            for c in clients:
                if isinstance(c, X.Upload) and c.started:
                    want = b"".join(c.block(i) for i in range(1, c.nb + 1))
                    have = open(c.target, "rb").read() if os.path.exists(c.target) else None
                    if have != want:
                        req_events.append({"e": "diskdiff", "label": c.label})
        alive = srv.alive()
    finally:
        drop_server(sb, srv)
    return xfer_events, req_events, alive


def exhaustive_pairs(single):
    """Every interleaving (at step granularity) of two short transfers: a 3-block download and a
    3-block upload, both orders of starting."""
    import itertools
    sb, srv = with_server("pairs-%s" % ("s" if single else "m"), shared=True, single=single, ow=True)
    events = []
    try:
        content = b"".join(X.payload(500 + i, 8 if i < 3 else 5) for i in range(1, 4))
        open(os.path.join(sb.send, "pair.bin"), "wb").write(content)
        n = 0
        for first in ("d", "u"):
            for sched in sorted(set(itertools.permutations("dddduuuu"))):
                n += 1
                d = X.Download(srv, "pair-%d-d" % n, b"pair.bin", content, opts=[("blksize", 8)])
                u = X.Upload(srv, "pair-%d-u" % n, ("pair_up_%d.bin" % n).encode(), 3, 5, opts=[("blksize", 8)],
                             target=os.path.join(sb.recv, "pair_up_%d.bin" % n))
                for c in ((d, u) if first == "d" else (u, d)):
                    c.quiet = 0.08
                    c.start()
                for who in sched:
                    c = d if who == "d" else u
                    if not c.done:
                        c.step()
                for c in (d, u):
                    while not c.done:
                        c.step()
                X.server_outcomes(srv, [d, u], wait=0.5)
                for c in (d, u):
                    events += c.events
                    c.close()
    finally:
        drop_server(sb, srv)
    return events


def c12(res):
    q = res.tier == "quick"
    rng = random.Random(C.seed())
    W.model_check(res, "MC_Server_Iso", module="MC_Server")
    for single in ((True,) if q else (False, True)):
        file_scenario_deviations(res, exhaustive_pairs(single), "pairs-%s" % ("single" if single else "multi"),
                                 "a client's projection under an exhaustively enumerated interleaving of two transfers is not a lone transfer")
    for single in (False, True):
        tag = "concurrent-%s" % ("single" if single else "multi")
        xe, re_, alive = concurrent_scenario(res, tag, single, k=5 if q else 16, rng=rng, rounds=6 if q else 20)
        before = dict(res.drift)
        judge_transfers(res, xe, tag)
        # isolation IS "every client's projection is a behaviour of a lone transfer of its own file":
        # whatever else a deviation in these traces breaks, it breaks that
        for label, cnt in res.drift.items():
            if cnt > before.get(label, 0):
                res.add_violation("ConcurrentTransfer:%s|%s" % (label, tag),
                                  "C12: %d client projection(s) in %s are not lone transfers of their own file (%s)" % (cnt - before.get(label, 0), tag, label),
                                  {"kind": "net-scenario", "label": label, "seed": C.seed()})
        # intruder exchanges: Trace_Requests (foreign packets must get ERROR 4 from the listener)
        sbdevs = judge_net_trace(res, [e for e in re_ if e.get("e") in ("cfg", "req")], tag + "-intruder")
        for e in re_:
            if e.get("e") in ("portmix", "diskdiff", "notserved"):
                res.add_violation("%s|%s|%s" % (e["e"], tag, e["label"]), "C12: %s in %s: %s" % (e["e"], tag, json.dumps(e)),
                                  {"kind": "net-scenario", "event": e, "seed": C.seed()})
        if not alive:
            res.add_violation("dead|%s" % tag, "C12: server process died during %s" % tag, {"kind": "net-scenario", "seed": C.seed()})
    res.assumptions += ["concurrent transfers touch distinct files", "interleaving chosen by a seeded scheduler at step granularity in one driver thread; the server's own thread scheduling is recorded, not controlled"]


class UploadHistory:
    """Drives several write requests for one name against the real process and records what
    Server.tla talks about: accepted requests, workers' progress, failures, the file on disk."""

    NB = 2

    def __init__(self, srv, sb):
        import socket
        self.srv, self.sb = srv, sb
        self.socks = {}
        for ep in ("c1", "c2"):
            s = socket.socket(socket.AF_INET, socket.SOCK_DGRAM)
            s.bind((NET.HOST, 0))
            self.socks[ep] = s
        self.workers = []      # dict(ep, name, port, k, state)
        self.events = [{"e": "reset"}]

    def close(self):
        for s in self.socks.values():
            s.close()

    def recv(self, ep, timeout=0.5):
        b, addr = NET.recv_reply(self.socks[ep], timeout)
        return (NET.parse(b), addr) if b is not None else (None, None)

    def wrq(self, ep, name):
        self.socks[ep].sendto(NET.rq(2, name.encode()), (NET.HOST, self.srv.port))
        p, addr = self.recv(ep, 1.0)
        if p is None:
            self.events.append({"e": "wrq", "ep": ep, "name": name, "reply": "none", "code": 0, "wid": 0})
            return 0
        if p["k"] == "ack" and p["n"] == 0:
            self.workers.append({"ep": ep, "name": name, "port": addr[1], "k": 0, "state": "open"})
            wid = len(self.workers)
            self.events.append({"e": "wrq", "ep": ep, "name": name, "reply": "ack0", "code": 0, "wid": wid})
            time.sleep(0.03)       # the worker thread creates the file right after it is spawned
            self.events.append({"e": "opened", "wid": wid})
            return wid
        self.events.append({"e": "wrq", "ep": ep, "name": name, "reply": p["k"], "code": p.get("code", 0), "wid": 0})
        return 0

    def block(self, wid):
        w = self.workers[wid - 1]
        i = w["k"] + 1
        size = 512 if i < self.NB else 6
        self.socks[w["ep"]].sendto(NET.data(i, X.payload(wid * 1000 + i, size)), (NET.HOST, w["port"]))
        p, addr = self.recv(w["ep"], 1.0)
        for _ in range(8):          # copies of earlier ACKs (duplicate-packets mode) may still be queued
            if p is None or p == {"k": "ack", "n": i}:
                break
            p, addr = self.recv(w["ep"], 1.0)
        if p == {"k": "ack", "n": i}:
            w["k"] = i
            self.events.append({"e": "block", "wid": wid})
            if i == self.NB:
                w["state"] = "done"
                self.events.append({"e": "finish", "wid": wid})
            return True
        self.events.append({"e": "noack", "wid": wid})
        return False

    def fail(self, wid):
        w = self.workers[wid - 1]
        before = self.srv.output().count("while receiving")
        self.socks[w["ep"]].sendto(NET.error(0, b"abort"), (NET.HOST, w["port"]))
        deadline = time.time() + 1.0
        while time.time() < deadline and self.srv.output().count("while receiving") == before:
            time.sleep(0.01)
        time.sleep(0.02)
        w["state"] = "failed"
        self.events.append({"e": "fail", "wid": wid, "cause": "error"})

    def disk(self, name):
        path = os.path.join(self.sb.recv, name)
        if not os.path.lexists(path):
            self.events.append({"e": "disk", "name": name, "st": "absent", "by": 0, "k": 0, "mixed": False})
            return
        b = open(path, "rb").read()
        ids = []
        at = 0
        while at < len(b):
            chunk = b[at:at + 512]
            ids.append(X.payload_id(chunk))
            at += 512
        owners = {i // 1000 for i in ids}
        by = ids[0] // 1000 if ids else 0
        clean_run = len(owners) <= 1 and [i % 1000 for i in ids] == list(range(1, len(ids) + 1))
        self.events.append({"e": "disk", "name": name, "st": "file", "by": by, "k": len(ids) if clean_run else -1,
                            "mixed": not clean_run, "size": len(b)})


def upload_histories(single, ow, clean, rng, n_random, dup=0):
    """The scripted histories (incl. the stale-request history of DESIGN.md D6) and seeded random ones."""
    sb, srv = with_server("hist", shared=True, single=single, ow=ow, clean=clean, dup=dup)
    events = []
    alive = True
    try:
        def fresh():
            h = UploadHistory(srv, sb)
            for n in ("f", "g"):
                p = os.path.join(sb.recv, n)
                if os.path.lexists(p):
                    os.remove(p)
            return h
        scripted = [
            # the client goes away the moment its upload is complete (matters when the server
            # still has repeats of the final ACK to send)
            [("wrq", "c1", "f"), ("block", 1), ("block", 1), ("hangup", "c1"), ("disk", "f")],
            # over a longer file that was there before (overwrite mode only): completion replaces it
            # entirely, a kept partial file is a prefix of what was sent
            [("pre", "f", 4), ("wrq", "c1", "f"), ("block", 1), ("block", 1), ("disk", "f")],
            [("pre", "f", 4), ("wrq", "c1", "f"), ("block", 1), ("disk", "f"), ("fail", 1), ("disk", "f")],
            # a lone upload that fails half way / completes
            [("wrq", "c1", "f"), ("block", 1), ("disk", "f"), ("fail", 1), ("disk", "f")],
            [("wrq", "c1", "f"), ("block", 1), ("block", 1), ("disk", "f")],
            # retransmitted request: the later one completes, then the earlier one fails
            [("wrq", "c1", "f"), ("wrq", "c1", "f"), ("block", 2), ("block", 2), ("disk", "f"), ("fail", 1), ("disk", "f")],
            # duplicate request from another endpoint, other name in between
            [("wrq", "c1", "f"), ("wrq", "c2", "f"), ("wrq", "c1", "g"), ("block", 2), ("block", 2), ("block", 3),
             ("disk", "f"), ("fail", 1), ("disk", "f"), ("block", 3), ("disk", "g")],
            # the earlier one fails first: nothing of the later one may be lost afterwards
            [("wrq", "c1", "f"), ("wrq", "c2", "f"), ("fail", 1), ("disk", "f"), ("block", 2), ("block", 2), ("disk", "f")],
        ]
        for steps in scripted + [None] * n_random:
            h = fresh()
            if steps is None:
                steps = []
                nw = 0
                for _ in range(rng.randrange(3, 9)):
                    kind = rng.choice(["wrq", "block", "block", "fail", "disk"]) if nw else "wrq"
                    if kind == "wrq" and nw < 3:
                        steps.append(("wrq", rng.choice(["c1", "c2"]), rng.choice(["f", "f", "g"])))
                        nw += 1
                    elif kind in ("block", "fail"):
                        steps.append((kind, rng.randrange(1, nw + 1)))
                    else:
                        steps.append(("disk", rng.choice(["f", "g"])))
                steps += [("disk", "f"), ("disk", "g")]
            for st in steps:
                if st[0] == "pre":
                    if ow:
                        with open(os.path.join(sb.recv, st[1]), "wb") as f:
                            f.write(b"".join(X.payload(9000 + i, 512) for i in range(1, st[2] + 1)))
                        h.events.append({"e": "pre", "name": st[1], "k": st[2]})
                    else:
                        break
                elif st[0] == "wrq":
                    h.wrq(st[1], st[2])
                elif st[0] in ("block", "fail"):
                    if st[1] <= len(h.workers) and h.workers[st[1] - 1]["state"] == "open":
                        w = h.workers[st[1] - 1]
                        if single and any(x["ep"] == w["ep"] for x in h.workers[st[1]:]):
                            continue       # single port: the endpoint now routes to a later worker
                        later = any(x["name"] == w["name"] for x in h.workers[st[1]:])
                        if st[0] == "block":
                            # scope of C13's second clause: once a later request for the name has been
                            # accepted the client goes on with that one; the earlier transfer only fails
                            if not later:
                                h.block(st[1])
                        elif not single:
                            h.fail(st[1])
                elif st[0] == "hangup":
                    import socket as _s
                    h.socks[st[1]].close()
                    time.sleep(0.05)
                    ns = _s.socket(_s.AF_INET, _s.SOCK_DGRAM)
                    ns.bind((NET.HOST, 0))
                    h.socks[st[1]] = ns
                else:
                    h.disk(st[1])
            # let every worker still alive go (ERROR), unrecorded, so that histories do not leak
            for wid, w in enumerate(h.workers, 1):
                if w["state"] == "open" and not single:
                    h.socks[w["ep"]].sendto(NET.error(0, b"end"), (NET.HOST, w["port"]))
            time.sleep(0.05)
            events += h.events
            h.close()
        alive = srv.alive()
    finally:
        drop_server(sb, srv)
    return events, alive


def c13_second_clause(res):
    q = res.tier == "quick"
    rng = random.Random(C.seed())
    for name in ["MC_Server_Iso", "MC_Server_NoOverwrite"] + ([] if q else ["MC_Server_IsoSingle"]):
        W.model_check(res, name, module="MC_Server")
    combos = [("Multi_Ow_Clean", False, True, True, 0), ("Multi_Ow_Keep", False, True, False, 0),
              ("Multi_NoOw_Clean", False, False, True, 0), ("Multi_Ow_Clean", False, True, True, 3),
              ("Single_Ow_Clean", True, True, True, 0)]
    for cname, single, ow, clean, dup in (combos[:4] if q else combos):
        events, alive = upload_histories(single, ow, clean, rng, (6 if q else 60) if dup == 0 else 1, dup=dup)
        tag = "upload-histories-" + cname + ("-dup%d" % dup if dup else "")
        tdir = os.path.join(C.WORK, "traces")
        os.makedirs(tdir, exist_ok=True)
        tpath = os.path.join(tdir, "%s-%d.trace.ndjson" % (tag, os.getpid()))
        NET.write_trace(tpath, events)
        devs, nev, _ = W.judge(tpath, module="Trace_Server", cfg="Trace_Server_%s.cfg" % cname)
        res.events += nev
        nh = sum(1 for e in events if e["e"] == "reset")
        res.traces += nh
        res.legs.append({"family": tag, "histories": nh, "events": nev, "deviations": len(devs)})
        if len(res.samples) < 4:
            res.samples.append({"family": tag, "history": events[:12]})
        for (ln, label) in devs:
            k = ln - 1
            while k > 0 and events[k]["e"] != "reset":
                k -= 1
            end = ln
            while end < len(events) and events[end]["e"] != "reset":
                end += 1
            prev = events[ln - 2] if ln >= 2 else {}
            props, lname = W.label_props(label)
            sig = "%s|%s" % (lname, cname)
            if res.prop in props:
                res.add_violation(sig, "%s: %s in %s after %s: %s" % (res.prop, label, tag, json.dumps(prev), json.dumps(events[ln - 1])),
                                  {"kind": "upload-history", "config": cname, "history": events[k:end], "first_unexplained_event": ln - k})
            else:
                res.drift[label] = res.drift.get(label, 0) + 1
        if not devs:
            os.remove(tpath)
        if not alive:
            res.add_violation("dead|" + cname, "server died during upload histories", {"kind": "upload-history", "config": cname})


BOUNDARY_VALUES = ["0", "1", "7", "8", "65464", "65465", "65536", "2147483648", "4294967296",
                   "9223372036854775808", "18446744073709551615", "18446744073709551616", "-1", "x", "", "+8", "08"]
OPT_NAMES = [b"blksize", b"BLKSIZE", b"BlkSize", b"timeout", b"TimeOut", b"tsize", b"TSIZE", b"windowsize",
             b"WindowSize", b"unknown", b"blksiz", b""]
NAME_POOL = [b"b", b"a/a", b"a/b", b"zz", b"../b", b"a/../../b", b"/b", b"\\b", b"a", b"", b".", b"x" * 300,
             b"new1", b"sub/new", b"\xff\xfe", b"caf\xc3\xa9", b"b\x00x", b"a//a", b"./b", b"b/", b"..."]


def fuzz_datagram(rng):
    """structure-aware generator: raw bytes, valid packets, and mutations of valid packets"""
    kind = rng.random()
    if kind < 0.15:
        n = rng.choice([0, 1, 2, 3, 4, 5, 8, 16, 40])
        b = bytes(rng.randrange(256) for _ in range(n))
        if n >= 2 and rng.random() < 0.6:
            b = bytes([0, rng.randrange(0, 9)]) + b[2:]
        return b
    if kind < 0.75:
        op = rng.choice([1, 1, 2, 2, 1, 2, 0, 7])
        name = rng.choice(NAME_POOL) if rng.random() < 0.8 else bytes(rng.choice(b"ab./\\ %-_\x7f\xc3\xa9") for _ in range(rng.randrange(0, 12)))
        name = name.replace(b"\0", b"") if rng.random() < 0.9 else name
        opts = []
        for _ in range(rng.choice([0, 0, 1, 1, 2, 3, 4])):
            opts.append((rng.choice(OPT_NAMES), rng.choice(BOUNDARY_VALUES).encode()))
        b = NET.rq(op, name, opts, mode=rng.choice([b"octet", b"netascii", b"OCTET", b"", b"mail"]))
    else:
        b = rng.choice([NET.ack(rng.randrange(65536)), NET.data(rng.randrange(65536), bytes(rng.randrange(256) for _ in range(rng.choice([0, 1, 8, 512])))),
                        NET.error(rng.randrange(0, 10), b"m"), b"\0\6blksize\0" + rng.choice(BOUNDARY_VALUES).encode() + b"\0"])
    m = rng.random()
    if m < 0.45:
        return b
    if m < 0.6:
        return b[:rng.randrange(len(b) + 1)]
    if m < 0.75 and b:
        i = rng.randrange(len(b))
        return b[:i] + bytes([rng.randrange(256)]) + b[i + 1:]
    if m < 0.85 and b:
        i = rng.randrange(len(b))
        return b[:i] + b"\0" + b[i:]
    if m < 0.93 and b:
        i, j = sorted((rng.randrange(len(b)), rng.randrange(len(b))))
        return b[:j] + b[i:j] + b[j:]
    return b.rstrip(b"\0")


def c05(res):
    """Structure-aware fuzzing of the real listener process; every datagram's reaction is predicted
    by Requests.tla from Codec.Decode of the recorded bytes; liveness probes in between."""
    q = res.tier == "quick"
    rng = random.Random(C.seed())
    for name in ["MC_Server_Iso", "MC_Server_ReadOnly"]:
        W.model_check(res, name, module="MC_Server")
    configs = [dict(shared=True, single=False, ro=False, ow=False), dict(shared=True, single=True, ro=False, ow=False),
               dict(shared=False, single=False, ro=True, ow=False), dict(shared=True, single=True, ro=True, ow=True)]
    n_per = 350 if q else 6000
    vectors = []
    probe_v = {"b": list(NET.rq(1, b"b")), "probe": True}
    # state-changing prologue: accepted requests at the block-size boundaries (they resize the
    # single-port receive buffer), each followed by a probe and by ordinary requests
    for pro in (NET.rq(1, b"b", [("blksize", 8)]), NET.rq(2, b"pro1", [("blksize", 8)]), NET.rq(1, b"a/a", [("blksize", 65464)]),
                NET.rq(2, b"pro2", [("blksize", 65464), ("windowsize", 65535)]), NET.rq(1, b"b", [("blksize", 9), ("timeout", 255)])):
        vectors += [{"b": list(pro), "probe": False}, dict(probe_v), {"b": list(NET.rq(1, b"a/b", [("blksize", 1024)])), "probe": False},
                    {"b": list(NET.rq(2, b"after", [("tsize", 7)])), "probe": False}]
    # truncated to 2 and 3 bytes, every opcode (the property names truncation explicitly)
    for op in range(0, 8):
        for tail in (b"", b"\x00", b"\x01", b"\x00\x00"):
            vectors.append({"b": [0, op] + list(tail), "probe": False})
    vectors.append(dict(probe_v))
    for i in range(n_per):
        vectors.append({"b": list(fuzz_datagram(rng)[:500]), "probe": False})
        if i % 40 == 39:
            vectors.append({"b": list(NET.rq(1, b"b")), "probe": True})
    vectors.append({"b": list(NET.rq(1, b"b")), "probe": True})

    def reqs(v):
        return [bytes(v["b"])]
    C.build_bins()
    events = record_requests(vectors, reqs, "fuzz", configs)
    # mark probes (record_requests numbers requests 1.. per config in vector order)
    k = 0
    per = len(vectors)
    for ev in events:
        if ev.get("e") == "req":
            ev["probe"] = bool(vectors[(ev["sid"] - 1) % per]["probe"])
    probe = C.Result(res.prop, res.tier)
    devs = judge_net_trace(probe, events, "fuzz")
    if devs:
        bad = set()
        seen = {}
        for (ln, label) in devs:
            ev = events[ln - 1]
            if "sid" in ev and seen.get(label, 0) < 8:
                seen[label] = seen.get(label, 0) + 1
                bad.add(ev["sid"])
        # the listener carries state from one datagram to the next (single-port buffer size, routing
        # map): a deviation is re-examined by replaying the WHOLE sequence of its configuration,
        # with four times the grace, not the single exchange on a fresh server
        bad_cfgs = {(sid - 1) // per for sid in bad}
        whole = {sid for sid in range(1, per * len(configs) + 1) if (sid - 1) // per in bad_cfgs}
        events2 = record_requests(vectors, reqs, "fuzz-retry", configs, only=whole, patient=0.25)
        for ev in events2:
            if ev.get("e") == "req":
                ev["probe"] = bool(vectors[(ev["sid"] - 1) % per]["probe"])
        res.legs.append({"family": "fuzz", "first_pass_deviations": len(devs), "retried": len(bad)})
        res.traces += sum(1 for e in events if e.get("e") == "req")
        judge_net_trace(res, events2, "fuzz-retry")
    else:
        res.traces += probe.traces
        res.events += probe.events
        res.legs += probe.legs
        res.samples += probe.samples[:2]
    # C05 asks that the server "goes on answering subsequent valid requests correctly": in this run
    # every reply that differs from the specification's - whatever other property it also breaks -
    # is a failure to do so
    REPLY_LABELS = ("ReplyForBadPath", "Refusal", "UnhonourableAcknowledged", "Oack", "WrongFileServed", "ForeignNotRefused",
                    "ReplyToUndecodable", "Reply", "RefusalPort", "SourcePort")
    for label, cnt in list(res.drift.items()):
        name = W.label_props(label)[1]
        if name in REPLY_LABELS:
            res.add_violation("FuzzReply:%s" % name, "C05: %d exchange(s) of the fuzz run answered differently from the specification (%s)" % (cnt, label),
                              {"kind": "fuzz", "label": label, "seed": C.seed()})
    # "from any number of sources": also from ONE source with a history - an endpoint that keeps
    # sending garbage and, in between, valid requests which must each be served completely
    import socket as _s
    ev_t = []
    for single in (False, True):
        sb, srv = with_server("fuzz-reuse-%s" % ("s" if single else "m"), shared=True, single=single)
        try:
            sock = _s.socket(_s.AF_INET, _s.SOCK_DGRAM)
            sock.bind((NET.HOST, 0))
            content = open(os.path.join(sb.send, "b"), "rb").read()
            for rnd in range(3 if q else 12):
                for _ in range(25):
                    sock.sendto(fuzz_datagram(rng)[:500], (NET.HOST, srv.port))
                NET.recv_reply(sock, 0.05)
                time.sleep(0.05)
                sock.setblocking(False)
                try:
                    while True:
                        sock.recvfrom(70000)
                except OSError:
                    pass
                sock.setblocking(True)
                d = X.Download(srv, "reused-%s-%d" % ("s" if single else "m", rnd), b"b", content, sock=sock,
                               opts=rng.choice([[], [("blksize", 64)], [("windowsize", 2)]]))
                d.start()
                while not d.done:
                    d.step()
                X.server_outcomes(srv, [d])
                ev_t += d.events
                if not d.started:
                    ev_t += [{"e": "cfg", "role": "send", "M": 65536, "W": 1, "NB": 1, "R": 1, "T": 5, "chk": False, "clean": True,
                              "base0": 0, "lastempty": False, "devfull": False, "label": "not-served:" + d.label, "net": True}, {"e": "hang"}]
                d.wire_from = set()
            sock.close()
            if not srv.alive():
                res.add_violation("dead|fuzz-reuse", "C05: server died", {"kind": "fuzz"})
        finally:
            drop_server(sb, srv)
    file_scenario_deviations(res, ev_t, "fuzz-reused-endpoint", "a valid request from an endpoint with a history (garbage, earlier transfers) is not served correctly")
    res.extra["fuzz_datagrams_per_config"] = n_per
    res.assumptions += ["resource exhaustion by sheer volume (threads, descriptors) is out of scope",
                        "datagrams longer than the 516-byte request buffer are judged on the truncated bytes"]


def c14(res):
    """tftpc <-> tftpd: design check on the composition of the two workers (TransferClosed), then
    real runs through a recording proxy; both workers' traces judged by Trace_Transfer, final
    states by Trace_Interop."""
    q = res.tier == "quick"
    rng = random.Random(C.seed())
    W.model_check(res, "MC_ClosedNoFault", module="MC_TransferClosed")
    W.model_check(res, "MC_ClosedQuick" if q else "MC_ClosedFull", module="MC_TransferClosed")
    C.build_bins()
    grid = []
    blks = [8, 512, 1468, 65464] if q else [8, 9, 512, 1468, 65463, 65464]
    wins = [1, 2, 7, 64] if q else [1, 2, 3, 7, 64, 512]
    for direction in ("download", "upload"):
        for blk in blks:
            for w in wins:
                for (nb, lastkind) in ([(1, 0), (1, 1), (2, 0), (3, 1), (8, 1)] if q else
                                       [(1, 0), (1, 1), (2, 0), (2, 1), (3, 1), (4, 0), (7, 1), (8, 1), (9, 0), (65, 1)]):
                    grid.append((direction, blk, w, nb, lastkind))
    rng.shuffle(grid)
    grid = grid[:32 if q else 400]
    xfer_events, finals = [], []
    for single in (False, True):
        sb, srv = with_server("interop-%s" % ("s" if single else "m"), shared=True, single=single, ow=True)
        work = os.path.join(os.path.dirname(sb.base), "client")
        try:
            for k, (direction, blk, w, nb, lastkind) in enumerate(grid):
                if k % 2 != (1 if single else 0) and q:
                    continue
                last = 0 if lastkind == 0 else (blk - 1 if blk > 8 else 5)
                content = X.make_file(nb, blk, last)
                name = "io_%d.bin" % k
                if direction == "download":
                    with open(os.path.join(sb.send, name), "wb") as f:
                        f.write(content)
                tmo = rng.choice([1, 1, 2, 5, 255 if nb <= 2 else 3])
                if min(w, nb) * (blk + 800) > 140000:
                    tmo = 1     # the kernel will drop part of every window: recovery costs one timeout per round
                if sum(1 for f in finals if f["timed_out"]) >= 3:
                    break       # something is badly wrong; three stalled runs say enough
                se, ce, fin = IO.one_run(srv, sb, work, direction, name, content, blk, w, tmo,
                                         "%s-%s-b%d-w%d-n%d" % ("s" if single else "m", direction, blk, w, nb))
                xfer_events += se + ce
                finals.append(fin)
            # one transfer across the block-number wrap with a window that straddles it
            if not single or not q:
                wrapc = X.make_file(65540, 8, 5)
                open(os.path.join(sb.send, "wrap.bin"), "wb").write(wrapc)
                for direction in (("download",) if q else ("download", "upload")):
                    # (a small window makes 65 540 blocks through the recording proxy take longer than the run may last)
                    se, ce, fin = IO.one_run(srv, sb, work, direction, "wrap.bin", wrapc, 8, 64 if (q or not single) else 100, 1, "wrap-%s" % direction,
                                             run_timeout=120 if q else 300)
                    xfer_events += se + ce
                    finals.append(fin)
            # path conventions and refusals
            nested = X.make_file(3, 512, 100)
            os.makedirs(os.path.join(sb.send, "dir", "sub"), exist_ok=True)
            open(os.path.join(sb.send, "dir", "sub", "nested.bin"), "wb").write(nested)
            for remote in ("dir/sub/nested.bin", "dir\\sub\\nested.bin", "/dir/sub/nested.bin"):
                se, ce, fin = IO.one_run(srv, sb, work, "download", remote, nested, 512, 1, 5, "nested:" + remote)
                xfer_events += se + ce
                finals.append(fin)
            for remote, kind in (("missing.bin", "download"), ("../outside.txt", "download")):
                se, ce, fin = IO.one_run(srv, sb, work, kind, remote, b"", 512, 1, 5, "refusal:" + remote, expect_refusal=True)
                finals.append(fin)
            alive = srv.alive()
        finally:
            drop_server(sb, srv)
        if not alive:
            res.add_violation("dead|interop", "server died during interop runs", {"kind": "interop"})
    # refusals that depend on server policy: read-only, no-overwrite
    for flags, remote, direction, pre in ((dict(ro=True), "up.bin", "upload", None), (dict(ow=False), "b", "upload", None)):
        sb, srv = with_server("interop-pol", shared=True, **flags)
        work = os.path.join(os.path.dirname(sb.base), "client")
        try:
            se, ce, fin = IO.one_run(srv, sb, work, direction, remote, b"new content", 512, 1, 5,
                                     "refusal:%s:%s" % (sorted(flags), remote), expect_refusal=True)
            finals.append(fin)
        finally:
            drop_server(sb, srv)
    # distinct send / receive directories: uploads land in the receive directory, downloads come from the send directory
    sb, srv = with_server("interop-dirs", shared=False, ow=False)
    work = os.path.join(os.path.dirname(sb.base), "client")
    try:
        content = X.make_file(3, 512, 100)
        open(os.path.join(sb.send, "dd.bin"), "wb").write(content)
        for direction in ("upload", "download"):
            se, ce, fin = IO.one_run(srv, sb, work, direction, "dd.bin", content, 512, 2, 1, "dirs-%s" % direction)
            xfer_events += se + ce
            finals.append(fin)
    finally:
        drop_server(sb, srv)
    # IPv6 loopback
    sb, srv = with_server("interop-v6", shared=True, ow=True, host="::1")
    work = os.path.join(os.path.dirname(sb.base), "client")
    try:
        for direction, blk, w, nb in (("download", 512, 2, 5), ("upload", 1468, 3, 4)):
            content = X.make_file(nb, blk, 100)
            if direction == "download":
                open(os.path.join(sb.send, "v6.bin"), "wb").write(content)
            se, ce, fin = IO.one_run(srv, sb, work, direction, "v6.bin", content, blk, w, 1, "v6-%s" % direction, host="::1")
            xfer_events += se + ce
            finals.append(fin)
    finally:
        drop_server(sb, srv)
    if not q:
        # long transfers across the block-number wrap, very large windows
        sb, srv = with_server("interop-big", shared=True, ow=True)
        work = os.path.join(os.path.dirname(sb.base), "client")
        try:
            for direction in ("download", "upload"):
                for (nb, w) in ((65537, 64), (65540, 150), (700, 65535)):     # (bursts of more than ~170 small datagrams overrun a socket buffer)
                    content = X.make_file(nb, 8, 5)
                    name = "big_%d_%d.bin" % (nb, w)
                    if direction == "download":
                        open(os.path.join(sb.send, name), "wb").write(content)
                    se, ce, fin = IO.one_run(srv, sb, work, direction, name, content, 8, w, 1, "big-%s-%d-%d" % (direction, nb, w), run_timeout=300)
                    xfer_events += se + ce
                    finals.append(fin)
        finally:
            drop_server(sb, srv)
    stalled = [f for f in finals if f["timed_out"]]
    if stalled:
        # a stall is a real-time observation: look once more, alone, with three times the patience
        sb, srv = with_server("interop-again", shared=True, ow=True)
        work = os.path.join(os.path.dirname(sb.base), "client")
        try:
            for f in stalled[:3]:
                if f["label"] not in IO.RUNS:
                    continue
                direction, remote, content, blk, w, tmo, host, local_name, refuse = IO.RUNS[f["label"]]
                if host != "127.0.0.1" or refuse:
                    continue
                if direction == "download":
                    os.makedirs(os.path.dirname(os.path.join(sb.send, "again", remote.replace("\\", "/").lstrip("/"))), exist_ok=True)
                    open(os.path.join(sb.send, "again.bin"), "wb").write(content)
                se, ce, fin = IO.one_run(srv, sb, work, direction, "again.bin", content, blk, w, 1, f["label"] + "-again", run_timeout=400)
                if not fin["timed_out"]:
                    finals.remove(f)
                    finals.append(fin)
        finally:
            drop_server(sb, srv)
    # the client up to the hand-over to its worker (Client.tla): request construction and reaction
    # to a scripted first reply (OACK subsets / other values, ACK, ERROR, DATA, garbage)
    cev = IO.client_reaction_runs(rng, 40 if q else 600, os.path.join(C.WORK, "sbx", "client-react-%d" % os.getpid()))
    shutil.rmtree(os.path.join(C.WORK, "sbx", "client-react-%d" % os.getpid()), ignore_errors=True)
    judge_net_trace(res, cev, "client-reaction", module="Trace_Client", sample_kind="crun")
    judge_transfers(res, xfer_events, "interop-wire")
    judge_net_trace(res, finals, "interop-final", module="Trace_Interop", sample_kind="final")
    res.extra["runs"] = len(finals)
    res.assumptions += ["wire traces are taken at a proxy between the two processes; without injected loss the protocol is lock-step, so the proxy's order is each worker's order",
                        "the client's exit status is always 0; 'reports the error' is read from its stderr/stdout"]


def c17(res):
    fams = ["MC_Cli_STokQuick", "MC_Cli_SItemQuick", "MC_Cli_CTokQuick", "MC_Cli_CItemQuick"] if res.tier == "quick" \
        else ["MC_Cli_STokFull", "MC_Cli_SItemFull", "MC_Cli_CTokFull", "MC_Cli_CItemFull"]
    for f in fams:
        W.run_family(res, f, layer=W.CLI)
    rng = random.Random(C.seed())
    W.run_vectors(res, write_vectors("cli-random", random_cli_vectors(rng, 400 if res.tier == "quick" else 10000)),
                  "cli-random-seed%d" % C.seed(), layer=W.CLI)
    res.assumptions += ["-h/--help is excluded (it terminates the process)",
                        "what a token means as a value (address, port, existing directory, u8) is tabulated over a fixed token universe",
                        "the client treats every non-flag token, including argv[0], as the file name (recorded behaviour)"]


def c18(res):
    fams = ["MC_Window_ReadersQuick", "MC_Window_MixedQuick"] if res.tier == "quick" else \
           ["MC_Window_ReadersFull", "MC_Window_MixedFull"]
    for f in fams:
        W.run_family(res, f, layer=W.WINDOW)
    rng = random.Random(C.seed())
    W.run_vectors(res, write_vectors("window-random", random_window_scripts(rng, 150 if res.tier == "quick" else 4000)),
                  "window-random-seed%d" % C.seed(), layer=W.WINDOW)
    # a window larger than one vectored write can take: every piece must reach the file, in order
    big = {"cfg": {"mode": "w", "size": 1100, "chunk": 1, "flen": 0, "pure": False},
           "steps": [{"op": "add", "d": [1 + (i % 200)]} for i in range(1100)] + [{"op": "add", "d": [9]}, {"op": "empty"}, {"op": "add", "d": [7, 7]}, {"op": "empty"}]}
    W.run_vectors(res, write_vectors("window-big", [big]), "window-big", layer=W.WINDOW)
    res.assumptions += ["files are regular files on a local file system; a reader's file is opened read-only, a writer's is created write-only (as the worker does)",
                        "fill() after end of file yields further empty pieces (recorded behaviour; the property constrains the bytes handed out)"]


CHECKS = {"C14": c14, "C05": c05, "C12": c12, "C03": c03, "C06": c06, "C09": c09, "C17": c17, "C10": codec, "C11": codec, "C18": c18, "C01": c01, "C02": c02, "C04": c04, "C07": c07, "C08": c08, "C13": c13, "C15": c15, "C16": c16}


QUICK_FAMILIES = [
    ("MC_TransferOpen", ["MC_SendCoreQuick", "MC_RecvCoreQuick", "MC_SendBigWShort", "MC_RecvBigW", "MC_RecvDevfull", "MC_RecvPrefill",
                         "MC_SendWrapSmall", "MC_RecvWrapSmall", "MC_SendWrapReal", "MC_RecvWrapReal",
                         "MC_SendDup", "MC_RecvDup"]),
    ("MC_Window", ["MC_Window_ReadersQuick", "MC_Window_MixedQuick"]),
    ("MC_TransferClosed", ["MC_ClosedQuick", "MC_ClosedDup", "MC_ClosedNoFault"]),
    ("MC_Server", ["MC_Server_Iso", "MC_Server_NoOverwrite", "MC_Server_ReadOnly"]),
    ("MC_Requests", ["MC_Requests_NamesQuick", "MC_Requests_Opts1", "MC_Requests_OptsQuick"]),
    ("MC_Codec", ["MC_Codec_BytesQuick", "MC_Codec_DeepQuick", "MC_Codec_Prefix", "MC_Codec_PacketsQuick"]),
    ("MC_Cli", ["MC_Cli_STokQuick", "MC_Cli_SItemQuick", "MC_Cli_CTokQuick", "MC_Cli_CItemQuick"]),
]


def setup():
    """Builds the harness and pre-generates (model-checks) every configuration the quick tier
    uses; generation is cached by the hash of spec/, which does not change when /repo does."""
    C.build_harness(("wsim", "pure"))
    C.build_bins()
    for module, fams in QUICK_FAMILIES:
        for f in fams:
            meta, _ = W.generate(f, module=module)
            C.log("generated", f, meta)
    return 0


def replay_file(path):
    """Re-runs what a replay file recorded: a worker script is executed again on the real Worker
    and judged; other kinds print their recorded history and the command that reproduces them."""
    obj = json.load(open(path))
    rep = obj.get("replay", {})
    print("property:", obj.get("property"), "| signature:", obj.get("signature"))
    print("recorded:", obj.get("description"))
    script = rep.get("script")
    fam = str(rep.get("family", ""))
    if rep.get("kind") == "wsim-script" and isinstance(script, dict) and "cfg" in script:
        sp = os.path.join(C.WORK, "replay.script.ndjson")
        with open(sp, "w") as f:
            f.write(json.dumps(script) + "\n")
        tp = W.replay(sp, "replay")
        devs, n, _ = W.judge(tp)
        for line in open(tp):
            print("   ", line.rstrip()[:200])
        os.remove(tp)
        print("now:", devs if devs else "accepted by the trace specification (no deviation)")
        return 1 if devs else 0
    if isinstance(script, dict) and ("b" in script or "p" in script or "args" in script or "steps" in script):
        layer = W.CODEC if ("b" in script or "p" in script) else (W.CLI if "args" in script else W.WINDOW)
        sp = os.path.join(C.WORK, "replay.vector.ndjson")
        with open(sp, "w") as f:
            f.write(json.dumps(script) + "\n")
        tp = W.replay(sp, "replay", layer)
        devs, n, _ = W.judge(tp, module=layer["trace"], cfg=layer["trace"] + ".cfg")
        print("   ", open(tp).read()[:600])
        os.remove(tp)
        print("now:", devs if devs else "accepted")
        return 1 if devs else 0
    for ev in (rep.get("history") or rep.get("trace") or [])[:60]:
        print("   ", json.dumps(ev)[:200])
    print("to reproduce: VERIF_SEED=%s ./check %s --tier quick   (real-process scenario: %s)" % (rep.get("seed", C.seed()), obj.get("property"), fam or rep.get("kind")))
    return 0
