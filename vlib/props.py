"""Per-property decision procedures (DESIGN.md section 6)."""
import json, os
from . import common as C
from . import worker as W
from . import net as NET


def worker_families(res, quick, thorough):
    fams = quick if res.tier == "quick" else thorough
    for f in fams:
        W.run_family(res, f)
    res.assumptions += [
        "worker driven through the public Socket trait by a simulated socket; virtual clock via hook H2",
        "TLC-generated scripts cover every input transition of the bounded open model; beyond the bounds only sampled",
    ]


def c01(res):
    worker_families(res, ["MC_SendCoreQuick", "MC_SendWrapReal"], ["MC_SendCoreFull", "MC_SendDup", "MC_SendWrapRealDeep"])


def c02(res):
    worker_families(res, ["MC_RecvCoreQuick", "MC_RecvWrapReal"], ["MC_RecvCoreFull", "MC_RecvDup", "MC_RecvWrapRealDeep"])


def c07(res):
    worker_families(res, ["MC_SendCoreQuick", "MC_RecvCoreQuick"], ["MC_SendCoreFull", "MC_RecvCoreFull"])


def c04(res):
    worker_families(res, ["MC_SendCoreQuick", "MC_RecvCoreQuick"], ["MC_SendCoreFull", "MC_RecvCoreFull"])


def c08(res):
    worker_families(res, ["MC_SendCoreQuick", "MC_RecvCoreQuick", "MC_SendBigWShort", "MC_RecvBigW"],
                    ["MC_SendCoreFull", "MC_RecvCoreFull", "MC_SendBigWShort", "MC_RecvBigW", "MC_SendBigWFull"])


def c13(res):
    worker_families(res, ["MC_RecvCoreQuick", "MC_RecvDevfull"], ["MC_RecvCoreFull", "MC_RecvDevfull"])


def c15(res):
    W.model_check(res, "MC_SendWrapSmall")
    W.model_check(res, "MC_RecvWrapSmall")
    worker_families(res, ["MC_SendWrapReal", "MC_RecvWrapReal"],
                    ["MC_SendWrapRealDeep", "MC_RecvWrapRealDeep", "MC_SendBigWFull"])


def c16(res):
    worker_families(res, ["MC_SendDup", "MC_RecvDup"], ["MC_SendDup", "MC_RecvDup"])


def short_prefix_vectors(v):
    return len(v["b"]) in (2, 4)


def u16_file():
    path = os.path.join(C.GEN, "u16.vectors.ndjson")
    if not os.path.exists(path):
        os.makedirs(C.GEN, exist_ok=True)
        with open(path, "w") as f:
            f.write('{"u16":[0,65535]}\n')
    return path


def codec(res):
    """C10 and C11 share the enumerations; each files only the deviations labelled with its id."""
    q = res.tier == "quick"
    W.run_family(res, "MC_Codec_BytesQuick" if q else "MC_Codec_BytesFull", layer=W.CODEC)
    W.run_family(res, "MC_Codec_DeepQuick" if q else "MC_Codec_DeepFull", layer=W.CODEC)
    W.run_family(res, "MC_Codec_Prefix", select=short_prefix_vectors if q else None, layer=W.CODEC)
    W.run_family(res, "MC_Codec_PacketsQuick" if q else "MC_Codec_PacketsFull", layer=W.CODEC)
    W.run_vectors(res, u16_file(), "u16-conversions", layer=W.CODEC)
    res.assumptions += ["'never reads outside the buffer' is observed as 'never panics' (safe Rust)",
                        "option names are compared ASCII-case-insensitively in the specification; Unicode characters whose lowercase is ASCII (KELVIN SIGN) are outside the enumerated alphabet",
                        "ERROR without a terminated or well-formed message decodes with the message '(no message)' (the code's documented behaviour, covered by a baseline test)"]


def judge_net_trace(res, events, tag, module="Trace_Requests", sample_kind="req"):
    """Writes the recorded exchanges, lets TLC judge them, files deviations."""
    tdir = os.path.join(C.WORK, "traces")
    os.makedirs(tdir, exist_ok=True)
    tpath = os.path.join(tdir, "%s-%d.trace.ndjson" % (tag, os.getpid()))
    NET.write_trace(tpath, events)
    devs, nev, _ = W.judge(tpath, module=module, cfg=module + ".cfg")
    recs = W.deviation_records(devs, tpath, None, tag)
    nreq = sum(1 for e in events if e.get("e") == sample_kind)
    res.traces += nreq
    res.events += nev
    res.legs.append({"family": tag, "exchanges": nreq, "events": nev, "deviations": len(devs)})
    for e in events:
        if e.get("e") == sample_kind and len(res.samples) < 4 and len(json.dumps(e)) < 1500:
            res.samples.append({"family": tag, "exchange": e})
            break
    W.file_records(res, recs)
    if not devs:
        os.remove(tpath)
    return devs


SERVER_CONFIGS = [
    # (shared dir, single port, read-only, overwrite)
    dict(shared=True, single=False, ro=False, ow=False),
    dict(shared=False, single=False, ro=False, ow=True),
    dict(shared=False, single=True, ro=False, ow=False),
    dict(shared=True, single=True, ro=True, ow=False),
]


def record_requests(vectors, make_requests, tag, configs, only=None, patient=False):
    """For every server configuration: start the real tftpd in a fresh sandbox and send the
    request(s) derived from every vector, one exchange each.  `only`: set of sids to run."""
    import shutil
    events = []
    sid = 0
    for ci, cfg in enumerate(configs):
        todo = []
        for v in vectors:
            for req in make_requests(v):
                sid += 1
                if only is None or sid in only:
                    todo.append((sid, req))
        if not todo:
            continue
        sb = NET.Sandbox(os.path.join(C.WORK, "sbx", "%s-%d-%d" % (tag, os.getpid(), ci), "base"), cfg["shared"])
        srv = NET.Server(sb, single=cfg["single"], ro=cfg["ro"], ow=cfg["ow"], clean=cfg.get("clean", True))
        try:
            events.append(srv.cfg_event())
            for sid_, req in todo:
                events.append(NET.exchange(srv, req, sid_, patient=patient))
                if not srv.alive():
                    events.append({"e": "dead", "sid": sid_, "status": srv.exit_status()})
                    break
        finally:
            srv.stop()
            shutil.rmtree(os.path.dirname(sb.base), ignore_errors=True)
    return events


def run_requests(res, vectors, make_requests, tag, configs):
    """record -> judge; every deviation is re-run once in isolation with generous deadlines and
    only counts if it persists (real time enters only one-sidedly, DESIGN.md section 9)."""
    C.build_bins()
    if isinstance(vectors, str):
        vectors = [json.loads(l) for l in open(vectors)]
    events = record_requests(vectors, make_requests, tag, configs)
    probe = C.Result(res.prop, res.tier)
    devs = judge_net_trace(probe, events, tag)
    if devs:
        bad = set()
        lines = [e for e in events]
        seen_labels = {}
        for (ln, label) in devs:
            ev = lines[ln - 1]
            # a systematic defect persists on any sample of its occurrences: re-run at most 8 per label
            if "sid" in ev and seen_labels.get(label, 0) < 8:
                seen_labels[label] = seen_labels.get(label, 0) + 1
                bad.add(ev["sid"])
        events2 = record_requests(vectors, make_requests, tag + "-retry", configs, only=bad, patient=True)
        res.legs.append({"family": tag, "first_pass_deviations": len(devs), "retried": len(bad)})
        nreq = sum(1 for e in events if e.get("e") == "req")
        res.traces += nreq
        res.events += len(events)
        return judge_net_trace(res, events2, tag + "-retry")
    res.traces += probe.traces
    res.events += probe.events
    res.legs += probe.legs
    res.samples += probe.samples[:2]
    return devs


def name_requests(v):
    name = bytes(v["name"])
    return [NET.rq(1, name), NET.rq(2, name)]


def c03(res):
    q = res.tier == "quick"
    fam = "MC_Requests_NamesQuick" if q else "MC_Requests_NamesFull"
    meta, spath = W.generate(fam, module="MC_Requests")
    res.states += meta["states"]
    res.transitions += meta["transitions"]
    run_requests(res, spath, name_requests, fam, SERVER_CONFIGS[:3] if q else SERVER_CONFIGS)
    res.extra["exhaustive"] = True
    res.assumptions += ["no symbolic links inside the served trees", "one request per fresh client endpoint; silence is re-confirmed once with a 1 s deadline"]


ALL_CONFIGS = [dict(shared=sh, single=si, ro=ro, ow=ow, clean=cl)
               for sh in (True, False) for si in (False, True) for ro in (False, True) for ow in (False, True)
               for cl in (True, False)]
POLICY_NAMES = [b"zz", b"b", b"s", b"a/a", b"a/new", b"a", b"nodir/x", b"../b", b"/b", b"\\a\\b"]
POLICY_OPTS = [(), (("blksize", 1024),), (("timeout", 0),), (("tsize", 0), ("windowsize", 2))]


def policy_requests(v):
    return [NET.rq(v["op"], bytes(v["name"]), [tuple(o) for o in v["opts"]])]


def c06(res):
    """The decision table of Requests.tla (a TLA+ function of flags x kind x target state x options)
    is evaluated by TLC on every recorded exchange with the real process."""
    q = res.tier == "quick"
    vectors = [{"op": op, "name": list(n), "opts": [list(o) for o in os_]} for n in POLICY_NAMES for op in (1, 2)
               for os_ in POLICY_OPTS]
    configs = [c for c in ALL_CONFIGS if c["clean"]][::2] + [ALL_CONFIGS[1]] if q else ALL_CONFIGS
    if not q:
        # order effects: every ordered pair of rows for two representative configurations
        pairs = []
        base = vectors[::3]
        for x in base:
            for y in base:
                pairs += [x, y]
        run_requests(res, pairs, policy_requests, "policy-pairs", [ALL_CONFIGS[0], ALL_CONFIGS[13]])
    run_requests(res, vectors, policy_requests, "policy-table", configs)
    W.model_check(res, "MC_Requests_NamesQuick", module="MC_Requests")
    res.assumptions += ["each exchange uses a fresh client endpoint and the sandbox is restored after every change, so rows are independent up to lingering worker threads"]


def opts_requests_for(sizes):
    def f(v):
        opts = [(o["o"], "".join(str(d) for d in o["v"])) for o in v["opts"]]
        return [NET.rq(1, b"b", opts), NET.rq(1, b"a/a", opts), NET.rq(2, b"new", opts)]
    return f


def c09_first_reply(res):
    q = res.tier == "quick"
    fams = ["MC_Requests_Opts1", "MC_Requests_OptsQuick"] if q else ["MC_Requests_Opts1", "MC_Requests_OptsFull"]
    for fam in fams:
        meta, spath = W.generate(fam, module="MC_Requests")
        res.states += meta["states"]
        res.transitions += meta["transitions"]
        vectors = [json.loads(l) for l in open(spath)]

        def reqs(v, q=q):
            opts = [(o["o"], "".join(str(d) for d in o["v"])) for o in v["opts"]]
            out = [NET.rq(1, b"b", opts), NET.rq(2, b"new", opts)]
            return out if q else out + [NET.rq(1, b"a/a", opts)]
        run_requests(res, vectors, reqs, fam, [SERVER_CONFIGS[0], SERVER_CONFIGS[2]])
    res.assumptions += ["first reply compared field by field with Negotiate (Options.tla); silence confirmed by a sentinel exchange with the single-threaded listener"]


def c17(res):
    fams = ["MC_Cli_STokQuick", "MC_Cli_SItemQuick", "MC_Cli_CTokQuick", "MC_Cli_CItemQuick"] if res.tier == "quick" \
        else ["MC_Cli_STokFull", "MC_Cli_SItemFull", "MC_Cli_CTokFull", "MC_Cli_CItemFull"]
    for f in fams:
        W.run_family(res, f, layer=W.CLI)
    res.assumptions += ["-h/--help is excluded (it terminates the process)",
                        "what a token means as a value (address, port, existing directory, u8) is tabulated over a fixed token universe",
                        "the client treats every non-flag token, including argv[0], as the file name (recorded behaviour)"]


def c18(res):
    fams = ["MC_Window_ReadersQuick", "MC_Window_MixedQuick"] if res.tier == "quick" else \
           ["MC_Window_ReadersFull", "MC_Window_MixedFull"]
    for f in fams:
        W.run_family(res, f, layer=W.WINDOW)
    res.assumptions += ["files are regular files on a local file system; a reader's file is opened read-only, a writer's is created write-only (as the worker does)",
                        "fill() after end of file yields further empty pieces (recorded behaviour; the property constrains the bytes handed out)"]


CHECKS = {"C03": c03, "C06": c06, "C09": c09_first_reply, "C17": c17, "C10": codec, "C11": codec, "C18": c18, "C01": c01, "C02": c02, "C04": c04, "C07": c07, "C08": c08, "C13": c13, "C15": c15, "C16": c16}


QUICK_FAMILIES = [
    ("MC_TransferOpen", ["MC_SendCoreQuick", "MC_RecvCoreQuick", "MC_SendBigWShort", "MC_RecvBigW", "MC_RecvDevfull",
                         "MC_SendWrapSmall", "MC_RecvWrapSmall", "MC_SendWrapReal", "MC_RecvWrapReal",
                         "MC_SendDup", "MC_RecvDup"]),
    ("MC_Window", ["MC_Window_ReadersQuick", "MC_Window_MixedQuick"]),
    ("MC_Codec", ["MC_Codec_BytesQuick", "MC_Codec_DeepQuick", "MC_Codec_Prefix", "MC_Codec_PacketsQuick"]),
    ("MC_Cli", ["MC_Cli_STokQuick", "MC_Cli_SItemQuick", "MC_Cli_CTokQuick", "MC_Cli_CItemQuick"]),
]


def setup():
    """Builds the harness and pre-generates (model-checks) every configuration the quick tier
    uses; generation is cached by the hash of spec/, which does not change when /repo does."""
    C.build_harness(("wsim", "pure"))
    for module, fams in QUICK_FAMILIES:
        for f in fams:
            meta, _ = W.generate(f, module=module)
            C.log("generated", f, meta)
    return 0


def replay_file(path):
    obj = json.load(open(path))
    print(json.dumps(obj.get("description")))
    return 0
