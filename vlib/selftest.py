"""./check selftest [trace|seeds [id ...]|coverage]

trace   : the binding binds - a recorded trace of the unchanged code is accepted; the same trace
          with one field corrupted, or with one hook event removed, is rejected at that line.
seeds   : every seeded change under seeded/ is applied to /repo in turn, the quick check of its
          property must report a VIOLATION, and the tree is restored.
coverage: every action of the open model is taken in the bounded instances (no vacuity)."""
import glob, json, os, re, subprocess, sys
from . import common as C
from . import worker as W


def trace_selftest():
    C.build_harness(("wsim", "pure"))
    meta, spath = W.generate("MC_RecvCoreQuick")
    lines = open(spath).read().splitlines()
    pick = [l for l in lines if l.count('"k":"data"') >= 2][:40] + lines[:10]
    sp = os.path.join(C.WORK, "selftest.scripts.ndjson")
    open(sp, "w").write("\n".join(pick) + "\n")
    tp = W.replay(sp, "selftest")
    devs, n, _ = W.judge(tp)
    ok = True
    print("clean trace: %d events, %d deviations" % (n, len(devs)))
    ok &= not devs
    ev = open(tp).read().splitlines()
    # 1. corrupt one recorded field: the number of an ACK the worker sent
    k = next(i for i, l in enumerate(ev) if '"k":"ack"' in l and '"e":"out"' in l)
    bad = list(ev)
    o = json.loads(bad[k])
    o["n"] = (o["n"] + 1) % 65536
    bad[k] = json.dumps(o, separators=(",", ":"))
    p1 = tp + ".corrupt"
    open(p1, "w").write("\n".join(bad) + "\n")
    d1, _, _ = W.judge(p1)
    print("corrupted field at line %d: deviations %s" % (k + 1, d1[:2]))
    ok &= any(ln == k + 1 for ln, _ in d1)
    # 2. corrupt the file projection carried by an ACK (the harness read the file inside send)
    bad = list(ev)
    o = json.loads(bad[k])
    o["file"] = {"lo": 0, "n": o["file"]["n"] + 1, "x": []}
    bad[k] = json.dumps(o, separators=(",", ":"))
    p2 = tp + ".corrupt2"
    open(p2, "w").write("\n".join(bad) + "\n")
    d2, _, _ = W.judge(p2)
    print("corrupted file projection at line %d: deviations %s" % (k + 1, d2[:2]))
    ok &= any(ln == k + 1 for ln, _ in d2)
    # 3. remove one event (as if a hook / a send had not been recorded)
    bad = ev[:k] + ev[k + 1:]
    p3 = tp + ".removed"
    open(p3, "w").write("\n".join(bad) + "\n")
    d3, _, _ = W.judge(p3)
    print("removed event %d: deviations %s" % (k + 1, d3[:2]))
    ok &= any(ln == k + 1 for ln, _ in d3)
    # 4. a snapshot whose retry counter is off by one (hook H3)
    s = next(i for i, l in enumerate(ev) if '"e":"snap"' in l)
    bad = list(ev)
    o = json.loads(bad[s])
    o["rc"] += 1
    bad[s] = json.dumps(o, separators=(",", ":"))
    p4 = tp + ".snap"
    open(p4, "w").write("\n".join(bad) + "\n")
    d4, _, _ = W.judge(p4)
    print("corrupted snapshot at line %d: deviations %s" % (s + 1, d4[:2]))
    ok &= any(ln == s + 1 for ln, _ in d4)
    for p in (tp, p1, p2, p3, p4):
        os.remove(p)
    print("trace selftest:", "PASS" if ok else "FAIL")
    return 0 if ok else 1


def seeds_selftest(ids):
    dirs = sorted(glob.glob(os.path.join(C.VERIF, "seeded", "*")))
    if ids:
        dirs = [d for d in dirs if os.path.basename(d) in ids]
    failed = []
    for d in dirs:
        meta = json.load(open(os.path.join(d, "meta.json")))
        prop = meta["property"]
        if meta.get("obsolete"):
            print("%-9s %-4s skipped (obsolete: equivalent to the repaired code)" % (meta["id"], prop), flush=True)
            continue
        if subprocess.run(["git", "-C", C.REPO, "diff", "--quiet"]).returncode != 0:
            raise C.ToolError("/repo is dirty")
        r = subprocess.run(["git", "-C", C.REPO, "apply", os.path.join(d, "patch.diff")], capture_output=True, text=True)
        if r.returncode != 0:
            print(meta["id"], "patch no longer applies:", r.stderr.strip()[:100])
            failed.append(meta["id"])
            continue
        # the quick check of the seed's own property must report it; the few seeds that only
        # neighbouring checks catch (meta.detected_by without the own property) are run against those
        targets = [prop] if prop in meta.get("detected_by", [prop]) else list(meta.get("detected_by", []))
        hit, shown = False, ""
        try:
            for t in targets:
                out = subprocess.run([os.path.join(C.VERIF, "check"), t, "--tier", "quick"], capture_output=True, text=True, timeout=2400)
                m = re.search(r"  %s: ([^\n]{0,120})" % t, out.stdout + out.stderr)
                shown = m.group(1) if m else ""
                if out.returncode == 1 and ("VIOLATION property=%s" % t) in out.stdout:
                    hit = True
                    break
        finally:
            subprocess.run(["git", "-C", C.REPO, "checkout", "--", "."])
        print("%-9s %-4s %s  %s" % (meta["id"], prop, ("DETECTED by %s" % t) if hit else "MISSED(exit %d)" % out.returncode, shown), flush=True)
        if not hit:
            failed.append(meta["id"])
    print("seeds selftest: %d of %d detected" % (len(dirs) - len(failed), len(dirs)), "missed:", failed)
    return 0 if not failed else 1


def coverage_selftest():
    """TLC -coverage on the open model: every Transfer action must have been taken."""
    out = C.tlc("MC_TransferOpen", "MC_SendCoreQuick.cfg", os.path.join(C.WORK, "tlc"), workers=4, extra=("-coverage", "1"))
    out += C.tlc("MC_TransferOpen", "MC_RecvCoreQuick.cfg", os.path.join(C.WORK, "tlc"), workers=4, extra=("-coverage", "1"))
    actions = ["CheckAck0", "CheckAckNonZero", "CheckEnd", "SendRecvAckInWindow", "SendRecvAckOutside", "RecvError",
               "SendRecvFail", "RecvDataInSeq", "RecvDataOutOfSeq", "RecvRecvFail", "Emit", "Exit"]
    ok = True
    src = open(os.path.join(C.SPEC, "Transfer.tla")).read().splitlines()
    starts = {}
    for i, l in enumerate(src, 1):
        m = re.match(r"^([A-Za-z0-9_]+)(\([^)]*\))? ==", l)
        if m:
            starts[m.group(1)] = i
    order = sorted(starts.values())
    for a in actions:
        lo = starts[a]
        hi = min([x for x in order if x > lo] + [len(src) + 1]) - 1
        # coverage lines: "  |line N, col .. of module Transfer: count" (count = evaluations)
        cnt = 0
        for ln, c in re.findall(r"line (\d+), col \d+ to line \d+, col \d+ of module Transfer: (\d+)", out):
            if lo <= int(ln) <= hi:
                cnt += int(c)
        print("%-22s lines %d-%d evaluated %d times" % (a, lo, hi, cnt))
        ok &= cnt > 0
    print("coverage selftest:", "PASS" if ok else "FAIL")
    return 0 if ok else 1


def main(args):
    what = args[0] if args else "trace"
    if what == "trace":
        return trace_selftest()
    if what == "seeds":
        return seeds_selftest(args[1:])
    if what == "coverage":
        return coverage_selftest()
    print(__doc__)
    return 2
