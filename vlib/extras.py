"""Unbounded arguments next to the bounded exploration (recorded in evidence; never the deciding
technique of a check): the wrap-around lemma with TLAPS, the sender's window invariants as an
inductive invariant with Apalache."""
import os, re, shutil, subprocess, time
from . import common as C

PROOFS = os.path.join(C.SPEC, "proofs")


def _run(cmd, cwd, timeout):
    try:
        r = subprocess.run(cmd, cwd=cwd, capture_output=True, text=True, timeout=timeout)
        return r.returncode, r.stdout + r.stderr
    except (subprocess.TimeoutExpired, FileNotFoundError) as e:
        return -1, repr(e)


def wrap_lemma():
    d = os.path.join(C.WORK, "proofs-tlaps")
    shutil.rmtree(d, ignore_errors=True)
    os.makedirs(d)
    shutil.copy(os.path.join(PROOFS, "WrapLemma.tla"), d)
    t0 = time.time()
    rc, out = _run(["tlapm", "--threads", "8", "WrapLemma.tla"], d, 300)
    m = re.search(r"All (\d+) obligations proved", out)
    shutil.rmtree(d, ignore_errors=True)
    return {"tool": "tlapm (Z3 back end)", "module": "spec/proofs/WrapLemma.tla", "proved": bool(m),
            "obligations": int(m.group(1)) if m else 0, "wall_s": round(time.time() - t0, 1),
            "statement": "M = 65536, any base, any len < M: an ACK number passes (n-(base+1)) % M < len iff it is the wire number of an outstanding block; that block is unique and is the one the sender advances to"}


def _inductive(module):
    d = os.path.join(C.WORK, "proofs-apalache-" + module)
    shutil.rmtree(d, ignore_errors=True)
    os.makedirs(d)
    shutil.copy(os.path.join(PROOFS, module + ".tla"), d)
    ok = True
    for args in (["--init=Init", "--length=0"], ["--init=IndInit", "--length=1"]):
        rc, out = _run(["apalache-mc", "check", "--cinit=ConstInit", "--inv=IndInv", "--out-dir=" + os.path.join(d, "out")] + args + [module + ".tla"], d, 600)
        ok &= "EXITCODE: OK" in out
    shutil.rmtree(d, ignore_errors=True)
    return ok


def receiver_inductive():
    t0 = time.time()
    ok = _inductive("ReceiverInd")
    return {"tool": "apalache-mc 0.58 (inductive invariant)", "module": "spec/proofs/ReceiverInd.tla", "proved": ok,
            "wall_s": round(time.time() - t0, 1),
            "statement": "for every windowsize 1..65535: stored + buffered = accepted, acknowledged <= stored (ACK(k) implies blocks 1..k stored), fewer than W blocks buffered while waiting, retry < 6"}


def sender_inductive():
    t0 = time.time()
    ok = _inductive("SenderInd")
    return {"tool": "apalache-mc 0.58 (inductive invariant: Init => IndInv, IndInv /\\ Next => IndInv')",
            "module": "spec/proofs/SenderInd.tla", "proved": ok, "wall_s": round(time.time() - t0, 1),
            "statement": "for every windowsize 1..65535, file length >= 1 block and timeout: len <= W, base+len <= NB, eof <=> base+len = NB, len >= 1 while running, retry < 6, done only at NB"}
