"""Shared plumbing for ./check: paths, subprocesses, TLC, evidence, findings."""
import hashlib, json, os, re, subprocess, sys, time

VERIF = os.path.dirname(os.path.dirname(os.path.abspath(__file__)))
REPO = os.environ.get("VERIF_REPO", "/repo")
SPEC = os.path.join(VERIF, "spec")
WORK = os.path.join(VERIF, "work")
GEN = os.path.join(WORK, "gen")
HARNESS = os.path.join(VERIF, "harness")
TARGET = os.path.join(WORK, "target")
EVID = os.path.join(VERIF, "evidence")
REPLAYS = os.path.join(VERIF, "replays")
TLA_JAR = "/opt/veriftools/tla/tla2tools.jar:/opt/veriftools/tla/CommunityModules-deps.jar"


class ToolError(Exception):
    """Something in the machinery (not the code under test) failed: exit 2."""


def log(*a):
    print(*a, file=sys.stderr, flush=True)


def sha(*parts):
    h = hashlib.sha256()
    for p in parts:
        h.update(p if isinstance(p, bytes) else str(p).encode())
        h.update(b"\0")
    return h.hexdigest()


def tree_hash(root, exts=None, skip=(".git", "target", "tmp", "work", "__pycache__")):
    h = hashlib.sha256()
    for d, dirs, files in os.walk(root):
        dirs[:] = sorted(x for x in dirs if x not in skip)
        for f in sorted(files):
            if exts and not f.endswith(exts):
                continue
            p = os.path.join(d, f)
            try:
                with open(p, "rb") as fh:
                    data = fh.read()
            except OSError:
                continue
            h.update(os.path.relpath(p, root).encode() + b"\0" + data + b"\0")
    return h.hexdigest()


def spec_hash():
    return tree_hash(SPEC, (".tla", ".cfg"))


def repo_hash():
    return tree_hash(REPO)


def run(cmd, cwd=None, env=None, timeout=None, stdout=None, stderr=None, check=False):
    e = dict(os.environ)
    e["CARGO_NET_OFFLINE"] = "true"
    if env:
        e.update(env)
    try:
        r = subprocess.run(cmd, cwd=cwd, env=e, timeout=timeout,
                           stdout=stdout if stdout is not None else subprocess.PIPE,
                           stderr=stderr if stderr is not None else subprocess.STDOUT, text=True)
    except subprocess.TimeoutExpired:
        raise ToolError("timeout: " + " ".join(cmd[:6]))
    if check and r.returncode != 0:
        raise ToolError("command failed (%d): %s\n%s" % (r.returncode, " ".join(cmd[:8]), (r.stdout or "")[-3000:]))
    return r


_built = {}


def build_harness(bins=("wsim",)):
    """(Re)builds the harness against /repo's current working tree, hooks on."""
    key = tuple(bins)
    if key in _built:
        return
    cmd = ["cargo", "build", "--offline"]
    for b in bins:
        cmd += ["--bin", b]
    env = {}
    if REPO != "/repo":
        # harness Cargo.toml names /repo; a scratch copy is substituted via a patched manifest
        raise ToolError("VERIF_REPO other than /repo is not supported by the harness manifest")
    r = run(cmd, cwd=HARNESS, env=env, timeout=1800)
    if r.returncode != 0:
        raise ToolError("harness build failed:\n" + r.stdout[-4000:])
    _built[key] = True


def harness_bin(name):
    return os.path.join(TARGET, "debug", name)


def build_bins():
    """Builds tftpd and tftpc from /repo's working tree (hooks off) into work/target-bin."""
    if "bins" in _built:
        return
    tdir = os.path.join(WORK, "target-bin")
    r = run(["cargo", "build", "--offline", "--features", "client", "--bins", "--target-dir", tdir],
            cwd=REPO, timeout=1800)
    if r.returncode != 0:
        raise ToolError("tftpd build failed:\n" + r.stdout[-4000:])
    _built["bins"] = True


def repo_bin(name):
    return os.path.join(WORK, "target-bin", "debug", name)


def tlc(module, cfg, workdir, workers=4, env=None, timeout=3600, extra=(), java_opts="", heap="4g"):
    """Runs TLC on spec/<module>.tla with spec/<cfg> in a scratch metadir; returns stdout."""
    os.makedirs(workdir, exist_ok=True)
    md = os.path.join(workdir, "md-%d-%d" % (os.getpid(), int(time.time() * 1000) % 100000))
    cmd = ["java", "-XX:+UseParallelGC", "-Xss1g", "-Xmx" + heap] + java_opts.split() + ["-cp", TLA_JAR, "tlc2.TLC",
           "-workers", str(workers), "-metadir", md, "-cleanup", "-noGenerateSpecTE",
           "-config", os.path.join(SPEC, cfg)] + list(extra) + [os.path.join(SPEC, module + ".tla")]
    r = run(cmd, cwd=SPEC, env=env, timeout=timeout)
    subprocess.run(["rm", "-rf", md])
    return r.stdout


def tlc_stats(out):
    ms = re.findall(r"^(\d+) states generated, (\d+) distinct states found", out, re.M)
    if not ms:
        return None
    return {"generated": int(ms[-1][0]), "distinct": int(ms[-1][1])}


def tlc_failed(out):
    """Returns a description if TLC reported an error (invariant, property, evaluation)."""
    m = re.search(r"Error: (.*)", out)
    if m:
        return m.group(1)
    if "Model checking completed. No error has been found." not in out and "Finished in" not in out:
        return "TLC did not finish"
    return None


def write_json(path, obj):
    os.makedirs(os.path.dirname(path), exist_ok=True)
    tmp = path + ".tmp"
    with open(tmp, "w") as f:
        json.dump(obj, f, indent=1, sort_keys=True)
        f.write("\n")
    os.replace(tmp, path)


def load_findings():
    p = os.path.join(VERIF, "known_findings.json")
    if not os.path.exists(p):
        return []
    with open(p) as f:
        return json.load(f)["findings"]


def seed():
    try:
        return int(os.environ.get("VERIF_SEED", "1"))
    except ValueError:
        return 1


class Result:
    """Accumulates what one check covered and what it found."""

    def __init__(self, prop, tier):
        self.prop, self.tier = prop, tier
        self.t0 = time.time()
        self.states = 0
        self.transitions = 0
        self.traces = 0
        self.events = 0
        self.scripts = 0
        self.samples = []
        self.violations = []      # (signature, description, replay-object)
        self.known = []
        self.drift = {}           # unattributed / other-property labels -> count
        self.legs = []
        self.assumptions = []
        self.extra = {}

    def add_violation(self, signature, desc, replay):
        for f in load_findings():
            if f.get("property") == self.prop and f.get("status") == "open" and re.search(f["signature"], signature):
                self.known.append((f, signature, desc))
                return
        self.violations.append((signature, desc, replay))

    def finish(self):
        wall = time.time() - self.t0
        cov = {
            "states": self.states, "transitions": self.transitions,
            "traces_validated_against_impl": self.traces,
            "events_judged": self.events, "scripts_replayed": self.scripts,
            "samples": self.samples[:6] or ["(none)"],
            "legs": self.legs, "other_labels_seen": self.drift,
        }
        cov.update(self.extra)
        ev = {"property_id": self.prop, "tier": self.tier, "seed": seed(), "level": "model_checking",
              "coverage": cov, "assumptions": self.assumptions, "wall_s": round(wall, 2),
              "violations": len(self.violations)}
        write_json(os.path.join(EVID, self.prop + ".json"), ev)
        seen = set()
        for f, sig, desc in self.known:
            if f["id"] in seen:
                continue
            seen.add(f["id"])
            print("KNOWN-FINDING: property=%s %s (%s)" % (self.prop, f["what"], f["id"]))
        if self.violations:
            os.makedirs(REPLAYS, exist_ok=True)
            by_key = {}
            for sig, desc, replay in self.violations:
                by_key.setdefault(sig.split("|")[0], (sig, desc, replay))
            for key, (sig, desc, replay) in list(by_key.items())[:8]:
                h = sha(self.prop, sig)[:12]
                path = os.path.join(REPLAYS, "%s-%s.json" % (self.prop, h))
                write_json(path, {"property": self.prop, "signature": sig, "description": desc,
                                  "count_same_kind": sum(1 for v in self.violations if v[0].split("|")[0] == key),
                                  "replay": replay})
                print("VIOLATION property=%s replay=%s" % (self.prop, path))
                log("  " + desc)
            return 1
        return 0
