"""Worker-level checks (C01 C02 C04 C07 C08 C13 C15 C16): TLC explores Transfer.tla against an
adversarial peer and emits one replay script per explored input transition; harness/wsim runs
every script on the real tftpd::Worker over a simulated socket and virtual clock and records a
trace; TLC judges the trace against Trace_Transfer.tla, classifying each deviation."""
import json, os, re, time
from . import common as C

TRACE_JAVA = "-Xss1g -Dtlc2.tool.queue.IStateQueue=StateDeque"


def parse_scripts(out):
    scripts = []
    for line in out.splitlines():
        if line.startswith('<<"SCRIPT", '):
            m = re.match(r'<<"SCRIPT", (".*")>>$', line.strip())
            scripts.append(json.loads(m.group(1)))
    return scripts


def generate(cfgname, module="MC_TransferOpen", workers=8):
    """Model-checks spec/<cfgname>.cfg (all invariants and action properties) and returns
    (stats, scripts path).  Cached by the hash of the spec directory: the specification does
    not change when /repo does."""
    os.makedirs(C.GEN, exist_ok=True)
    key = C.sha(C.spec_hash(), module, cfgname)[:16]
    spath = os.path.join(C.GEN, "%s-%s.scripts.ndjson" % (cfgname, key))
    mpath = os.path.join(C.GEN, "%s-%s.meta.json" % (cfgname, key))
    if os.path.exists(spath) and os.path.exists(mpath):
        return json.load(open(mpath)), spath
    t0 = time.time()
    out = C.tlc(module, cfgname + ".cfg", os.path.join(C.WORK, "tlc"), workers=workers, heap="8g")
    err = C.tlc_failed(out)
    if err:
        tail = "\n".join(l for l in out.splitlines() if not l.startswith('<<"SCRIPT"'))[-3000:]
        raise C.ToolError("design model %s fails in TLC: %s\n%s" % (cfgname, err, tail))
    st = C.tlc_stats(out)
    lines = [l for l in parse_scripts(out)]
    with open(spath + ".tmp", "w") as f:
        for s in lines:
            f.write(s + "\n")
    os.replace(spath + ".tmp", spath)
    meta = {"cfg": cfgname, "states": st["distinct"], "transitions": st["generated"],
            "scripts": len(lines), "tlc_s": round(time.time() - t0, 1)}
    C.write_json(mpath, meta)
    return meta, spath


WORKER = {"mc": "MC_TransferOpen", "bin": "wsim", "sub": "replay", "trace": "Trace_Transfer",
          "args": ["--jobs", "16", "--workdir", os.path.join(C.WORK, "sim")]}
CODEC = {"mc": "MC_Codec", "bin": "pure", "sub": "codec", "trace": "Trace_Codec", "args": []}
CLI = {"mc": "MC_Cli", "bin": "pure", "sub": "cli", "trace": "Trace_Cli", "args": []}
WINDOW = {"mc": "MC_Window", "bin": "pure", "sub": "window", "trace": "Trace_Window", "args": []}


def replay(scripts_path, tag, layer=WORKER):
    """Runs every script on the real code; returns the trace path."""
    C.build_harness(("wsim", "pure"))
    tdir = os.path.join(C.WORK, "traces")
    os.makedirs(tdir, exist_ok=True)
    tpath = os.path.join(tdir, "%s-%d.trace.ndjson" % (tag, os.getpid()))
    with open(os.path.join(tdir, "%s-%s.log" % (layer["bin"], tag)), "w") as lf:
        r = C.run([C.harness_bin(layer["bin"]), layer["sub"], scripts_path, tpath] + layer["args"],
                  cwd=C.HARNESS, stdout=lf, stderr=lf, timeout=3600)
    if r.returncode != 0 or not os.path.exists(tpath):
        raise C.ToolError("%s failed on %s (exit %s)" % (layer["bin"], scripts_path, r.returncode))
    return tpath


def judge(trace_path, module="Trace_Transfer", cfg="Trace_Transfer.cfg"):
    """TLC validates the trace; returns (deviations [(line, label)], nevents, raw output)."""
    n = sum(1 for _ in open(trace_path))
    out = C.tlc(module, cfg, os.path.join(C.WORK, "tlc"), workers=1, env={"TRACE": trace_path},
                java_opts=TRACE_JAVA, heap="6g", timeout=3600)
    devs = []
    for line in out.splitlines():
        m = re.match(r'<<"DEV", (\d+), "([^"]*)">>', line)
        if m:
            devs.append((int(m.group(1)), m.group(2)))
    err = C.tlc_failed(out)
    if err:
        # an invariant of the design failing on a state of an implementation trace, or the
        # trace not being consumed to the end, is never silently accepted
        inv = re.search(r"Invariant (\S+) is violated", out)
        stuck = re.search(r'<<"STUCK", (\d+)', out)
        if inv:
            lm = re.findall(r"/\\ l = (\d+)", out)
            devs.append((int(lm[-1]) if lm else 0, "INV:" + inv.group(1)))
        elif stuck:
            raise C.ToolError("trace spec stuck at line %s of %s" % (stuck.group(1), trace_path))
        else:
            raise C.ToolError("TLC failed judging %s: %s\n%s" % (trace_path, err, out[-2000:]))
    return devs, n, out


def label_props(label):
    """'C07,C01:BeyondFinal+C15' -> ({'C07','C01','C15'}, 'BeyondFinal')"""
    props, _, name = label.partition(":")
    extra = set()
    if "+" in name:
        name, _, more = name.partition("+")
        extra = set(more.split("+"))
    if props == "INV":
        return {name.split("_")[0]}, name
    return set(props.split(",")) | extra, name


def deviation_records(devs, tpath, spath, family):
    """One self-contained record per deviation: its run's events, its script, its label."""
    if not devs:
        return []
    lines = open(tpath).read().splitlines()
    scripts = open(spath).read().splitlines() if spath else None
    recs = []
    for (ln, label) in devs:
        own = json.loads(lines[ln - 1]) if 0 < ln <= len(lines) else {}
        if "sid" in own and own.get("e") != "cfg":     # vector-style trace: one self-contained line
            script = json.loads(scripts[own["sid"] - 1]) if scripts else None
            recs.append({"label": label, "family": family, "cfg": {"sid": own["sid"]}, "event_index": 1,
                         "event": lines[ln - 1][:300], "script": script if len(lines[ln - 1]) < 5000 else "(large)",
                         "trace": [own] if len(lines[ln - 1]) < 5000 else []})
            if len(recs) >= 2000:
                break
            continue
        k = ln - 1
        while k > 0 and '"e":"cfg"' not in lines[k]:
            k -= 1
        cfg = json.loads(lines[k])
        end = ln
        while end < len(lines) and '"e":"cfg"' not in lines[end]:
            end += 1
        script = json.loads(scripts[cfg["sid"] - 1]) if scripts and cfg.get("sid") else None
        recs.append({"label": label, "family": family, "cfg": cfg, "event_index": ln - k,
                     "event": lines[ln - 1][:300], "script": script,
                     "trace": [json.loads(x) for x in lines[k:end]][:300]})
        if len(recs) >= 2000:
            break
    return recs


def family_result(cfgname, select=None, tag=None, layer=WORKER):
    """generate -> replay -> judge for one MC configuration, memoised on the content of
    /repo, the harness and the specification (a changed tree is always re-run)."""
    meta, spath = generate(cfgname, module=layer["mc"])
    tag = tag or cfgname
    if select:
        sel = os.path.join(C.GEN, "%s.%s.ndjson" % (os.path.basename(spath), select.__name__))
        if not os.path.exists(sel):
            with open(spath) as f, open(sel + ".tmp", "w") as g:
                for line in f:
                    if select(json.loads(line)):
                        g.write(line)
            os.replace(sel + ".tmp", sel)
        spath = sel
        tag += "-" + select.__name__
    nscripts = sum(1 for _ in open(spath))
    key = C.sha(C.repo_hash(), C.tree_hash(C.HARNESS, (".rs", ".toml")), C.spec_hash(), tag)[:20]
    mpath = os.path.join(C.WORK, "memo", key + ".json")
    if os.path.exists(mpath) and not os.environ.get("VERIF_NO_MEMO"):
        out = json.load(open(mpath))
        out["memo"] = True
        return out
    t0 = time.time()
    tpath = replay(spath, tag, layer)
    t1 = time.time()
    devs, nev, _ = judge(tpath, module=layer["trace"], cfg=layer["trace"] + ".cfg")
    out = {"family": tag, "tlc_states": meta["states"], "tlc_transitions": meta["transitions"],
           "scripts": nscripts, "events": nev, "deviations": len(devs),
           "records": deviation_records(devs, tpath, spath, tag),
           "replay_s": round(t1 - t0, 1), "judge_s": round(time.time() - t1, 1), "memo": False}
    with open(spath) as f:
        lines = f.readlines()
    out["sample"] = json.loads(lines[len(lines) // 2]) if lines else None
    os.remove(tpath)
    C.write_json(mpath, out)
    return out


def model_check(res, cfgname, module="MC_TransferOpen"):
    """Design check only (e.g. small-modulus instances whose scripts do not apply to the code)."""
    meta, _ = generate(cfgname, module=module)
    res.states += meta["states"]
    res.transitions += meta["transitions"]
    res.legs.append({"family": cfgname, "tlc_states": meta["states"], "tlc_transitions": meta["transitions"],
                     "design_check_only": True})


def run_vectors(res, spath, tag, layer=WORKER):
    """replay -> judge for a vectors/scripts file that does not come from TLC."""
    key = C.sha(C.repo_hash(), C.tree_hash(C.HARNESS, (".rs", ".toml")), C.spec_hash(), tag,
                open(spath, "rb").read())[:20]
    mpath = os.path.join(C.WORK, "memo", key + ".json")
    if os.path.exists(mpath) and not os.environ.get("VERIF_NO_MEMO"):
        out = json.load(open(mpath))
    else:
        tpath = replay(spath, tag, layer)
        devs, nev, _ = judge(tpath, module=layer["trace"], cfg=layer["trace"] + ".cfg")
        out = {"family": tag, "scripts": sum(1 for _ in open(spath)), "events": nev, "deviations": len(devs),
               "records": deviation_records(devs, tpath, None, tag)}
        os.remove(tpath)
        C.write_json(mpath, out)
    res.scripts += out["scripts"]
    res.traces += out["scripts"]
    res.events += out["events"]
    res.legs.append({k: v for k, v in out.items() if k != "records"})
    file_records(res, out["records"])
    return out


def run_random(res, profile, count):
    """Seeded random scenarios (reference peer behind a faulty network) at the real modulus, far
    outside the exhaustive bounds; recorded from the real Worker, judged by Trace_Transfer."""
    C.build_harness(("wsim", "pure"))
    tag = "random-%s-%d-seed%d" % (profile, count, C.seed())
    key = C.sha(C.repo_hash(), C.tree_hash(C.HARNESS, (".rs", ".toml")), C.spec_hash(), tag)[:20]
    mpath = os.path.join(C.WORK, "memo", key + ".json")
    if os.path.exists(mpath) and not os.environ.get("VERIF_NO_MEMO"):
        out = json.load(open(mpath))
    else:
        tdir = os.path.join(C.WORK, "traces")
        os.makedirs(tdir, exist_ok=True)
        tpath = os.path.join(tdir, "%s-%d.trace.ndjson" % (tag, os.getpid()))
        with open(os.path.join(tdir, "wsim-%s.log" % tag), "w") as lf:
            r = C.run([C.harness_bin("wsim"), "random", tpath, "--seed", str(C.seed()), "--count", str(count),
                       "--profile", profile, "--jobs", "16" if profile in ("small", "bigblk") else "3",
                       "--workdir", os.path.join(C.WORK, "sim")],
                      cwd=C.HARNESS, stdout=lf, stderr=lf, timeout=3600)
        if r.returncode != 0 or not os.path.exists(tpath):
            raise C.ToolError("wsim random failed (%s)" % r.returncode)
        devs, nev, _ = judge(tpath)
        out = {"family": tag, "scripts": count, "events": nev, "deviations": len(devs),
               "records": deviation_records(devs, tpath, None, tag)}
        os.remove(tpath)
        C.write_json(mpath, out)
    res.scripts += out["scripts"]
    res.traces += out["scripts"]
    res.events += out["events"]
    res.legs.append({k: v for k, v in out.items() if k != "records"})
    file_records(res, out["records"])
    return out


def run_family(res, cfgname, select=None, tag=None, layer=WORKER):
    out = family_result(cfgname, select, tag, layer)
    res.states += out["tlc_states"]
    res.transitions += out["tlc_transitions"]
    res.scripts += out["scripts"]
    res.traces += out["scripts"]
    res.events += out["events"]
    res.legs.append({k: v for k, v in out.items() if k not in ("records", "sample")})
    if out.get("sample") and len(res.samples) < 3:
        res.samples.append({"family": out["family"], "script": out["sample"]})
    file_records(res, out["records"])
    return out


def claimers(family):
    """which checks run this family in their quick tier (so that no label can fall between checks)"""
    f = str(family)
    if "Dup" in f:
        return {"C16", "C01"}
    if "Wrap" in f or "wrap" in f:
        return {"C15", "C01", "C02"}
    if f.startswith(("MC_Send", "MC_Recv", "random-", "recv-bigflush")):
        return {"C01", "C02", "C04", "C07", "C08", "C13"}
    return set()


def file_records(res, records):
    """Files each deviation under the properties its label names; a deviation whose label names no
    check that runs this family is filed by every check that does (nothing falls between checks)."""
    for r in records:
        props, name = label_props(r["label"])
        if "X" not in props and res.prop not in props and claimers(r["family"]) and not (props & claimers(r["family"])) \
                and res.prop in claimers(r["family"]):
            props = props | {res.prop}
            name = "Unclaimed:" + name
        cfg = r["cfg"]
        sig = "%s|%s|role=%s W=%s NB=%s R=%s chk=%s base0=%s|sid=%s" % (
            name, r["family"], cfg.get("role"), cfg.get("W"), cfg.get("NB"), cfg.get("R"), cfg.get("chk"),
            cfg.get("base0"), cfg.get("sid"))
        if res.prop in props:
            desc = "%s: %s at event %d of run sid=%s (%s): %s" % (
                res.prop, r["label"], r["event_index"], cfg.get("sid"), r["family"], r["event"][:200])
            res.add_violation(sig, desc, {"kind": "wsim-script", "family": r["family"], "label": r["label"],
                                          "script": r["script"], "trace": r["trace"],
                                          "first_unexplained_event": r["event_index"]})
        else:
            res.drift[r["label"]] = res.drift.get(r["label"], 0) + 1
